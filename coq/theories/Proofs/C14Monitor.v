(* C14: the executable monitor of Corr/C14.v is implied by the theorems: evaluated on the MODEL's own outputs it always passes. *)
From KV Require Import Base.Prelude Base.StrFind Base.DnsName Model.Validator Proofs.ValidatorP Corr.C14.
Open Scope string_scope.
Open Scope list_scope.
Open Scope Z_scope.

(* the model's counterparts of what the harness observes on an admitted experiment *)
Definition model_names (e : experiment) (algo suffix : string) (incfg : bool) : names :=
  {| n_algo := algo;
     n_algo_ok := dns1123_label algo && (String.length algo <=? 22)%nat;
     n_service_ok := dns1035_label (suggestion_resource_name (e_name e) algo);
     n_deploy_ok := dns_subdomain (suggestion_resource_name (e_name e) algo);
     n_suffix := suffix;
     n_trial_ok := dns_subdomain (trial_name (e_name e) suffix) && dns1123_label (trial_name (e_name e) suffix);
     n_algo_in_cfg := incfg |}.

Definition model_run (en : env) (e : experiment) (asg : list (string * string)) : run :=
  {| r_asg := asg;
     r_impl := match apply_parameters en e asg with Ok _ => Ok tt | Err c => Err c | Crash s => Crash s end;
     r_wellformed := true |}.   (* decoding of the substituted text is not modelled *)

Lemma model_names_agree e algo suffix incfg : names_agree e (model_names e algo suffix incfg) = true.
Proof. unfold names_agree, model_names; cbn. now rewrite !Bool.eqb_reflx. Qed.

Lemma monitor_model en e0 algo suffix incfg asgs :
  suffix <> "" -> forallb is_alnum (chars suffix) = true -> (String.length suffix <= 22)%nat ->
  (* the algorithm name is a legal label, or it is katib-config's own spelling *)
  (dns1123_label algo && (String.length algo <=? 22)%nat)%bool = true \/ incfg = true ->
  (admitted en e0 -> runnable en (set_default e0) /\ Forall (assignment_for (set_default e0)) asgs) ->
  monitor true (set_default e0) (validate en (set_default e0)) (Some (model_names (set_default e0) algo suffix incfg))
          (map (model_run en (set_default e0)) asgs) = true.
Proof.
  intros SN SA SL AC Dom. unfold monitor. cbn [negb].
  destruct (validate en (set_default e0)) as [[|x l]|c|s] eqn:V.
  - assert (A : admitted en e0) by exact V.
    rewrite (admitted_budget _ _ A), (admitted_derefs _ _ A). cbn [andb].
    destruct (admitted_name _ _ A) as [N L].
    apply andb_true_iff. split.
    + unfold names_ok, model_names; cbn.
      unfold suggestion_resource_name, trial_name. change (e_name (set_default e0)) with (e_name e0).
      destruct (derived_names (e_name e0) suffix N L (alnum_shape _ SN SA) SL) as (_ & T2 & T3).
      cbn [String.append] in T2, T3.
      destruct (dns1123_label algo && (String.length algo <=? 22)%nat)%bool eqn:AO;
        [|destruct AC as [AC|AC]; [discriminate|rewrite AC, T2, T3; reflexivity]].
      apply andb_true_iff in AO. destruct AO as [AL A22]. apply Nat.leb_le in A22.
      unfold dns1123_label in AL. apply andb_true_iff in AL. destruct AL as [AS _].
      destruct (derived_names (e_name e0) algo N L AS A22) as (D1 & _ & D3).
      cbn [String.append] in D1, D3. now rewrite D1, D3, T2, T3.
    + destruct (Dom A) as [R F]. rewrite forallb_forall. intros r I. apply in_map_iff in I. destruct I as (asg & <- & Ia).
      rewrite Forall_forall in F. destruct (template_runs en e0 asg A R (F _ Ia)) as [m Hm].
      unfold run_ok, model_run; cbn. now rewrite Hm.
  - reflexivity.
  - exfalso. exact (validate_gen_no_err _ _ _ _ V).
  - exfalso. exact (validate_gen_no_crash _ _ _ _ V).
Qed.
