(* C16: at rest no restart is left enabled -- in a quiescent reachable state the stored experiment does not satisfy the restart
   test (an experiment reconcile on synced caches would take the restart and write a status without the old verdict). *)
From KV Require Import Base.Prelude Base.Cond Model.World Proofs.WorldPlan Proofs.WorldInv Proofs.WorldInv2 Proofs.EqbSpec Proofs.WorldQuiet.
Open Scope Z_scope.

Ltac ne := let X := fresh in intro X; vm_compute in X; discriminate X.

Lemma get_turn_off_other cs off t : off <> t -> get_cond (turn_off cs off) t = get_cond cs t.
Proof. intro N. unfold turn_off. destruct (get_cond cs off); [now apply get_set_other|reflexivity]. Qed.

(* what the status in memory can say about Succeeded at the end of a reconcile that withdrew the verdict *)
Definition okS (m : Z) (st : estatus) : Prop :=
  match get_cond (es_conds st) ESucceeded with
  | None => True
  | Some c => creason c = RGoalReached \/ m <= completed_count (es_counts st)
  end.

Lemma okS_none m st : get_cond (es_conds st) ESucceeded = None -> okS m st.
Proof. unfold okS. now intros ->. Qed.

Lemma okS_update_condition cf m now st reached :
  get_cond (es_conds st) ESucceeded = None -> okS m (update_condition cf (Some m) now st reached).
Proof.
  intro G. unfold update_condition.
  destruct reached.
  { unfold okS. cbn [es_conds es_counts]. unfold emark_verdict, mark.
    destruct (get_set_same (turn_off (es_conds st) ERunning) ESucceeded CTrue RGoalReached) as (c&->&_&R&_). now left. }
  match goal with |- context [if ?c then _ else _] => destruct c end.
  { apply okS_none. cbn [es_conds]. unfold emark_verdict, mark. rewrite get_set_other by ne. rewrite get_turn_off_other by ne. exact G. }
  destruct (m <=? completed_count (es_counts st)) eqn:L.
  { unfold okS. cbn [es_conds es_counts]. unfold emark_verdict, mark.
    destruct (get_set_same (turn_off (es_conds st) ERunning) ESucceeded CTrue RMaxTrialsReached) as (c&->&_&_&_). right. now apply Z.leb_le. }
  apply okS_none. cbn [es_conds]. unfold mark. rewrite get_set_other by ne. exact G.
Qed.

Lemma not_completed_none st :
  get_cond (es_conds st) ESucceeded = None -> get_cond (es_conds st) EFailed = None -> e_completed st = false.
Proof. intros A B. unfold e_completed, e_is, has_cond. now rewrite A, B. Qed.

Lemma okS_update_status cf m now st ts :
  get_cond (es_conds st) ESucceeded = None -> get_cond (es_conds st) EFailed = None ->
  okS m (update_status cf (Some m) now st ts).
Proof.
  intros A B. unfold update_status. destruct (scan_best _ _ _ _ _) as [best reached].
  match goal with |- context [if e_completed ?s then _ else _] => set (s1 := s) end.
  assert (A1 : get_cond (es_conds s1) ESucceeded = None) by exact A.
  assert (B1 : get_cond (es_conds s1) EFailed = None) by exact B.
  rewrite (not_completed_none s1 A1 B1). now apply okS_update_condition.
Qed.

Lemma okS_plan_create cf m st ts sug add ws st' : plan_create cf st ts sug add = (ws, st') -> okS m st -> okS m st'.
Proof.
  unfold plan_create. destruct sug as [s|]; [|now intros [= _ <-]].
  destruct (s_is (s_st s) SFailed).
  { intros [= _ <-] O. unfold okS in *. cbn [with_conds es_conds es_counts]. unfold emark_verdict, mark.
    rewrite get_set_other by ne. rewrite get_turn_off_other by ne. exact O. }
  destruct (s_is (s_st s) SSucceeded && _); now intros [= _ <-].
Qed.

Lemma okS_plan_trials cf m st ts sug ws st' : plan_trials cf (Some m) st ts sug = (ws, st') -> okS m st -> okS m st'.
Proof.
  unfold plan_trials. destruct (_ <? _); [now intros [= _ <-]|].
  destruct (_ <? _); [|now intros [= _ <-]].
  destruct (0 <? _); [|now intros [= _ <-]]. apply okS_plan_create.
Qed.

Lemma restarting_no_succeeded st : get_cond (es_conds (mark_restarting st)) ESucceeded = None.
Proof. unfold mark_restarting, mark. cbn [es_conds]. rewrite get_set_other by ne. rewrite get_remove_other by ne. apply get_remove_same. Qed.

Lemma restarting_no_failed st : get_cond (es_conds (mark_restarting st)) EFailed = None.
Proof. unfold mark_restarting, mark. cbn [es_conds]. rewrite get_set_other by ne. apply get_remove_same. Qed.

(* the stored status that enables a restart is not okS *)
Lemma enabled_not_okS cf e m :
  status_wf (e_st e) -> restart_enabled_e cf e = true -> e_max e = Some m -> okS m (e_st e) -> False.
Proof.
  intros W R Hm O. unfold restart_enabled_e in R. rewrite Hm in R. apply andb_prop in R as [R L]. apply Z.ltb_lt in L.
  unfold restartable in R. unfold okS in O. destruct (get_cond (es_conds (e_st e)) ESucceeded) as [c|]; [|discriminate R].
  apply andb_prop in R as [R _]. apply andb_prop in R as [_ R]. apply Nat.eqb_eq in R.
  destruct O as [O|O]; [rewrite R in O; vm_compute in O; discriminate O|].
  rewrite W in O, L. pose proof (classes_partition_counts (es_classes (e_st e))) as P.
  pose proof (count_class_nonneg KPending (es_classes (e_st e))). pose proof (count_class_nonneg KRunning (es_classes (e_st e))).
  unfold counts_of in *. cbn [n_pending n_running n_trials] in *. lia.
Qed.

Theorem quiescent_no_restart w e :
  Inv w -> quiescent w -> w_exp w = Some e -> restart_enabled_e (w_cfg w) e = false.
Proof.
  intros [I P] ((Se&Ss&St)&Qe&_&_) He.
  destruct (restart_enabled_e (w_cfg w) e) eqn:R; [|reflexivity]. exfalso.
  assert (Hce : c_exp w = Some e) by congruence.
  destruct (i_exp _ I) as (e0&ce&He0&Hce0&_&De&_&(W0&L0)&_). rewrite He in He0. inversion He0; subst e0. clear He0 Hce0.
  pose proof R as R0. unfold restart_enabled_e in R0. apply andb_prop in R0 as [Rb Rm].
  destruct (e_max e) as [m|] eqn:Hm; [|discriminate Rm].
  assert (C0 : e_completed (e_st e) = true).
  { unfold restartable in Rb. unfold e_completed, e_is, has_cond.
    destruct (get_cond (es_conds (e_st e)) ESucceeded) as [c|]; [|discriminate Rb].
    apply andb_prop in Rb as [Rb _]. apply andb_prop in Rb as [Rb _]. now rewrite Rb. }
  unfold plan_exp in Qe. rewrite Hce, De in Qe. cbn [negb andb] in Qe.
  destruct (e_fin e); [|discriminate]. cbn [negb andb] in Qe.
  unfold plan_exp_completed in Qe. rewrite C0, Rb, Hm, Rm in Qe. cbn [andb] in Qe.
  set (st1 := mark_restarting (e_st e)) in *.
  pose proof (restarting_no_succeeded (e_st e)) as N1. pose proof (restarting_no_failed (e_st e)) as F1. fold st1 in N1, F1.
  apply (enabled_not_okS (w_cfg w) e m W0 R Hm).
  destruct (e_is st1 ECreated).
  2: { cbn [negb] in Qe. apply app_eq_nil in Qe as [_ Qe]. apply status_write_nil in Qe. rewrite <- Qe.
       apply okS_none. cbn [with_conds es_conds]. unfold mark. rewrite get_set_other by ne. exact N1. }
  cbn [negb] in Qe. apply app_eq_nil in Qe as [_ Qe]. unfold plan_exp_reconcile in Qe. rewrite Hm in Qe.
  set (st2 := match c_trials w with [] => st1 | _ => update_status (w_cfg w) (Some m) (w_clock w) st1 (c_trials w) end) in *.
  assert (O2 : okS m st2).
  { unfold st2. destruct (c_trials w); [now apply okS_none|now apply okS_update_status]. }
  destruct (e_completed st2).
  { apply status_write_nil in Qe. now rewrite <- Qe. }
  destruct (plan_trials (w_cfg w) (Some m) st2 (c_trials w) (c_sug w)) as [ws2 st3] eqn:PT.
  apply app_eq_nil in Qe as [_ Qe]. apply status_write_nil in Qe. rewrite <- Qe.
  exact (okS_plan_trials _ _ _ _ _ _ _ PT O2).
Qed.
