(* Byte strings as [list ascii], with the handful of Go [strings]/[strconv] operations that are simple enough to be
   transcribed and specified exactly: Contains, HasPrefix, Split on a one-byte separator, SplitN(s, " ", 2),
   TrimSpace (byte-exact, including the multi-byte Unicode White_Space runes), ParseInt(s, 10, 64).
   Lists are used instead of [string] because the list library (app, rev, In, Forall) carries the lemmas. *)
From KV Require Import Base.Prelude.
Open Scope Z_scope.

Definition str := list ascii.

(* conversion used by generated case files and by literals in the models *)
Definition B (s : string) : str := list_ascii_of_string s.

Definition ascii_eqb (a b : ascii) : bool := Ascii.eqb a b.
Definition str_eqb (a b : str) : bool := list_eqb Ascii.eqb a b.

Lemma str_eqb_eq a b : str_eqb a b = true <-> a = b.
Proof. apply list_eqb_spec. intros x y. apply Ascii.eqb_eq. Qed.

Lemma str_eqb_refl a : str_eqb a a = true.
Proof. now apply str_eqb_eq. Qed.

Lemma str_eqb_neq a b : str_eqb a b = false <-> a <> b.
Proof.
  split.
  - intros E H. apply str_eqb_eq in H. congruence.
  - intro H. destruct (str_eqb a b) eqn:E; [|reflexivity]. apply str_eqb_eq in E. contradiction.
Qed.

Definition mem (a : str) (l : list str) : bool := existsb (str_eqb a) l.

Lemma mem_In a l : mem a l = true <-> In a l.
Proof.
  unfold mem. rewrite existsb_exists. split.
  - intros [x [I E]]. apply str_eqb_eq in E. now subst.
  - intro I. exists a. split; [exact I|apply str_eqb_refl].
Qed.

(* ------------------------------------------------------------------ prefix / substring *)

(* strings.HasPrefix(s, p) *)
Fixpoint prefixb (p s : str) : bool :=
  match p, s with
  | [], _ => true
  | a :: p', b :: s' => Ascii.eqb a b && prefixb p' s'
  | _ :: _, [] => false
  end.

(* strings.Contains(s, m) *)
Fixpoint containsb (m s : str) : bool :=
  prefixb m s || match s with [] => false | _ :: r => containsb m r end.

(* [m] occurs in [s] *)
Definition substr (m s : str) : Prop := exists a b, s = a ++ m ++ b.

Lemma prefixb_spec p s : prefixb p s = true <-> exists r, s = p ++ r.
Proof.
  revert s. induction p as [|a p IH]; intros s; simpl.
  - split; [intros _; now exists s|reflexivity].
  - destruct s as [|b s].
    + split; [discriminate|intros [r H]; discriminate].
    + rewrite andb_true_iff, Ascii.eqb_eq, IH. split.
      * intros [-> [r ->]]. now exists r.
      * intros [r H]. injection H as -> ->. split; [reflexivity|now exists r].
Qed.

Lemma containsb_spec m s : containsb m s = true <-> substr m s.
Proof.
  unfold substr. induction s as [|c s IH].
  - simpl. rewrite orb_false_r, prefixb_spec. split.
    + intros [r H]. exists [], r. exact H.
    + intros [a [b H]]. destruct a; [|discriminate]. now exists b.
  - cbn [containsb]. rewrite orb_true_iff, prefixb_spec, IH. split.
    + intros [[r H]|[a [b H]]].
      * exists [], r. exact H.
      * exists (c :: a), b. simpl. now rewrite H.
    + intros [[|x a] [b H]].
      * left. now exists b.
      * right. injection H as _ H. now exists a, b.
Qed.

Lemma substr_refl s : substr s s.
Proof. exists [], []. now rewrite app_nil_r. Qed.

Lemma substr_trans a b c : substr a b -> substr b c -> substr a c.
Proof.
  intros [x [y ->]] [u [v ->]]. exists (u ++ x), (y ++ v). now rewrite !app_assoc.
Qed.

Lemma substr_nil s : substr [] s.
Proof. now exists [], s. Qed.

(* ------------------------------------------------------------------ splitting *)

(* strings.Split(s, string(sep)) for a one-byte separator: never returns the empty list *)
Fixpoint split_on (sep : ascii) (s : str) : list str :=
  match s with
  | [] => [[]]
  | c :: r =>
      if Ascii.eqb c sep then [] :: split_on sep r
      else match split_on sep r with
           | h :: t => (c :: h) :: t
           | [] => [[c]]
           end
  end.

Fixpoint join (sep : ascii) (l : list str) : str :=
  match l with
  | [] => []
  | [a] => a
  | a :: r => a ++ sep :: join sep r
  end.

Lemma split_on_nonempty sep s : split_on sep s <> [].
Proof. destruct s as [|c r]; simpl; [discriminate|]. destruct (Ascii.eqb c sep); [discriminate|]. destruct (split_on sep r); discriminate. Qed.

Lemma join_split_on sep s : join sep (split_on sep s) = s.
Proof.
  induction s as [|c r IH]; [reflexivity|]. cbn [split_on].
  destruct (Ascii.eqb c sep) eqn:E.
  - apply Ascii.eqb_eq in E. subst c. pose proof (split_on_nonempty sep r) as NE.
    destruct (split_on sep r) as [|h t] eqn:S; [contradiction|]. cbn [join app]. cbn [join] in IH. now rewrite IH.
  - pose proof (split_on_nonempty sep r) as NE.
    destruct (split_on sep r) as [|h t] eqn:S; [contradiction|].
    destruct t; cbn [join] in *; cbn [app]; now rewrite <- IH.
Qed.

Lemma split_on_no_sep sep s : Forall (fun p => ~ In sep p) (split_on sep s).
Proof.
  induction s as [|c r IH]; simpl.
  - constructor; [intros []|constructor].
  - destruct (Ascii.eqb c sep) eqn:E.
    + constructor; [intros []|exact IH].
    + destruct (split_on sep r) as [|h t]; [repeat constructor; intros [->|[]]; now rewrite Ascii.eqb_refl in E|].
      inversion IH as [|? ? Hh Ht]; subst. constructor; [|exact Ht].
      intros [->|I]; [now rewrite Ascii.eqb_refl in E|auto].
Qed.

Lemma split_on_no_occurrence sep s : ~ In sep s -> split_on sep s = [s].
Proof.
  induction s as [|c r IH]; intro N; [reflexivity|]. simpl.
  destruct (Ascii.eqb c sep) eqn:E.
  - apply Ascii.eqb_eq in E. subst. exfalso. apply N. now left.
  - rewrite IH; [reflexivity|]. intro I. apply N. now right.
Qed.

(* the split is the only decomposition into separator-free pieces *)
Lemma split_on_unique sep l : l <> [] -> Forall (fun p => ~ In sep p) l -> split_on sep (join sep l) = l.
Proof.
  induction l as [|a r IH]; [contradiction|]. intros _ F. inversion F as [|? ? Ha Hr]; subst.
  destruct r as [|b r].
  - cbn [join]. now apply split_on_no_occurrence.
  - change (join sep (a :: b :: r)) with (a ++ sep :: join sep (b :: r)).
    assert (IH' : split_on sep (join sep (b :: r)) = b :: r) by (apply IH; [discriminate|exact Hr]).
    clear IH F Hr. induction a as [|c a IHa].
    + cbn [app split_on]. rewrite Ascii.eqb_refl. now rewrite IH'.
    + cbn [app split_on]. destruct (Ascii.eqb c sep) eqn:E.
      * apply Ascii.eqb_eq in E. subst. exfalso. apply Ha. now left.
      * rewrite IHa; [reflexivity|]. intro I. apply Ha. now right.
Qed.

Definition space : ascii := " "%char.

(* strings.SplitN(s, " ", 2): None when the result has one element (no space), Some (ls[0], ls[1]) otherwise *)
Fixpoint split_space (s : str) : option (str * str) :=
  match s with
  | [] => None
  | c :: r =>
      if Ascii.eqb c space then Some ([], r)
      else match split_space r with
           | Some (a, b) => Some (c :: a, b)
           | None => None
           end
  end.

Lemma split_space_app a b : ~ In space a -> split_space (a ++ space :: b) = Some (a, b).
Proof.
  induction a as [|y a IHa]; intro N; cbn [app split_space].
  - now rewrite Ascii.eqb_refl.
  - destruct (Ascii.eqb y space) eqn:E.
    + apply Ascii.eqb_eq in E. subst. exfalso. apply N. now left.
    + rewrite IHa; [reflexivity|]. intro I. apply N. now right.
Qed.

Lemma split_space_some s a b : split_space s = Some (a, b) <-> s = a ++ space :: b /\ ~ In space a.
Proof.
  split.
  - revert a b. induction s as [|c r IH]; intros a b; cbn [split_space]; [discriminate|].
    destruct (Ascii.eqb c space) eqn:E.
    + apply Ascii.eqb_eq in E. subst c. intros [= <- <-]. split; [reflexivity|intros []].
    + destruct (split_space r) as [[a' b']|] eqn:S; [|discriminate].
      destruct (IH a' b' eq_refl) as [-> N]. intros [= <- <-]. split; [reflexivity|].
      intros [->|I]; [now rewrite Ascii.eqb_refl in E|auto].
  - intros [-> N]. now apply split_space_app.
Qed.

Lemma split_space_none s : split_space s = None <-> ~ In space s.
Proof.
  induction s as [|c r IH]; simpl.
  - split; [intros _ []|reflexivity].
  - destruct (Ascii.eqb c space) eqn:E.
    + apply Ascii.eqb_eq in E. subst. split; [discriminate|]. intro N. exfalso. apply N. now left.
    + destruct (split_space r) as [[a b]|].
      * split; [discriminate|]. intro N. exfalso. destruct IH as [_ IH].
        assert (X : Some (a, b) = None) by (apply IH; intro I; apply N; now right). discriminate.
      * split; [|reflexivity]. intros _ [->|I]; [now rewrite Ascii.eqb_refl in E|]. now apply IH.
Qed.

(* ------------------------------------------------------------------ strings.TrimSpace, byte-exact
   unicode.IsSpace: \t \n \v \f \r ' ' U+0085 U+00A0 U+1680 U+2000..U+200A U+2028 U+2029 U+202F U+205F U+3000.
   On UTF-8 bytes: a string starts (ends) with such a rune iff it starts (ends) with the rune's byte sequence;
   an invalid byte decodes to U+FFFD, which is not a space. *)

Definition nat_in (lo hi : nat) (c : ascii) : bool := let n := nat_of_ascii c in (lo <=? n)%nat && (n <=? hi)%nat.
Definition byte_is (k : nat) (c : ascii) : bool := Nat.eqb (nat_of_ascii c) k.

Definition space1 (c : ascii) : bool := nat_in 9 13 c || byte_is 32 c.
Definition space2 (c1 c2 : ascii) : bool := byte_is 194 c1 && (byte_is 133 c2 || byte_is 160 c2).   (* C2 85, C2 A0 *)
Definition space3 (c1 c2 c3 : ascii) : bool :=
  (byte_is 225 c1 && byte_is 154 c2 && byte_is 128 c3) ||                                            (* E1 9A 80 *)
  (byte_is 226 c1 && byte_is 128 c2 && (nat_in 128 138 c3 || nat_in 168 169 c3 || byte_is 175 c3)) ||  (* E2 80 80-8A, A8, A9, AF *)
  (byte_is 226 c1 && byte_is 129 c2 && byte_is 159 c3) ||                                            (* E2 81 9F *)
  (byte_is 227 c1 && byte_is 128 c2 && byte_is 128 c3).                                              (* E3 80 80 *)

(* [rv] = false: bytes in reading order; [rv] = true: the string is reversed, so are the sequences *)
Fixpoint trim_front (rv : bool) (s : str) : str :=
  match s with
  | [] => []
  | c1 :: r1 =>
      if space1 c1 then trim_front rv r1
      else match r1 with
           | c2 :: r2 =>
               if (if rv then space2 c2 c1 else space2 c1 c2) then trim_front rv r2
               else match r2 with
                    | c3 :: r3 => if (if rv then space3 c3 c2 c1 else space3 c1 c2 c3) then trim_front rv r3 else s
                    | [] => s
                    end
           | [] => s
           end
  end.

Definition trim_space (s : str) : str := rev (trim_front true (rev (trim_front false s))).

Lemma trim_front_suffix rv s : exists a, s = a ++ trim_front rv s.
Proof.
  remember (length s) as n eqn:Hn. revert s Hn.
  induction n as [n IH] using lt_wf_ind. intros s Hn.
  destruct s as [|c1 r1]; [now exists []|]. cbn [trim_front].
  destruct (space1 c1).
  - destruct (IH (length r1)) with (s := r1) as [a Ha]; [subst; simpl; lia|reflexivity|].
    exists (c1 :: a). simpl. now rewrite <- Ha.
  - destruct r1 as [|c2 r2]; [now exists []|].
    destruct (if rv then space2 c2 c1 else space2 c1 c2).
    + destruct (IH (length r2)) with (s := r2) as [a Ha]; [subst; simpl; lia|reflexivity|].
      exists (c1 :: c2 :: a). simpl. now rewrite <- Ha.
    + destruct r2 as [|c3 r3]; [now exists []|].
      destruct (if rv then space3 c3 c2 c1 else space3 c1 c2 c3).
      * destruct (IH (length r3)) with (s := r3) as [a Ha]; [subst; simpl; lia|reflexivity|].
        exists (c1 :: c2 :: c3 :: a). simpl. now rewrite <- Ha.
      * now exists [].
Qed.

Lemma trim_space_substr s : substr (trim_space s) s.
Proof.
  unfold trim_space. destruct (trim_front_suffix false s) as [a Ha].
  destruct (trim_front_suffix true (rev (trim_front false s))) as [b Hb].
  exists a, (rev b). rewrite Ha at 1. f_equal.
  rewrite <- (rev_involutive (trim_front false s)) at 1. rewrite Hb at 1. now rewrite rev_app_distr.
Qed.

(* ------------------------------------------------------------------ strconv.ParseInt(s, 10, 64) *)

Definition digit_val (c : ascii) : option Z :=
  if nat_in 48 57 c then Some (Z.of_nat (nat_of_ascii c) - 48) else None.

Fixpoint parse_digits (acc : Z) (s : str) : option Z :=
  match s with
  | [] => Some acc
  | c :: r => match digit_val c with Some d => parse_digits (acc * 10 + d) r | None => None end
  end.

Definition min_int64 : Z := - 2 ^ 63.
Definition max_int64 : Z := 2 ^ 63 - 1.
Definition in_int64 (v : Z) : bool := (min_int64 <=? v) && (v <=? max_int64).

(* optional sign, at least one digit, only digits; range error outside int64 (computed on the exact value,
   which is what ParseUint's overflow test amounts to) *)
Definition parse_signed (s : str) : option Z :=
  let '(neg, body) := match s with
                      | c :: r => if byte_is 43 c then (false, r) else if byte_is 45 c then (true, r) else (false, s)
                      | [] => (false, s)
                      end in
  match body with
  | [] => None
  | _ => match parse_digits 0 body with
         | Some n => Some (if neg then - n else n)
         | None => None
         end
  end.

Definition parse_int64 (s : str) : option Z :=
  match parse_signed s with
  | Some v => if in_int64 v then Some v else None
  | None => None
  end.

(* decimal printing with a fixed width (value taken modulo 10^w) *)
Definition digit_char (d : Z) : ascii := ascii_of_nat (48 + Z.to_nat d).
Fixpoint pad_digits (w : nat) (z : Z) : str :=
  match w with
  | O => []
  | S w' => pad_digits w' (z / 10) ++ [digit_char (z mod 10)]
  end.
