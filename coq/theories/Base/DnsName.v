(* Kubernetes object-name syntaxes as boolean functions on strings
   (k8s.io/apimachinery/pkg/util/validation: IsDNS1035Label, IsDNS1123Label, IsDNS1123Subdomain), and the
   closure lemmas needed for names of the form  <experiment>-<suffix>. *)
From KV Require Import Base.Prelude.

Definition ch (c : ascii) : nat := nat_of_ascii c.
Definition is_lower (c : ascii) : bool := (97 <=? ch c) && (ch c <=? 122).
Definition is_digit (c : ascii) : bool := (48 <=? ch c) && (ch c <=? 57).
Definition is_dash (c : ascii) : bool := ch c =? 45.
Definition is_dot (c : ascii) : bool := ch c =? 46.
Definition is_alnum (c : ascii) : bool := is_lower c || is_digit c.
Definition is_body (c : ascii) : bool := is_alnum c || is_dash c.

Fixpoint chars (s : string) : list ascii :=
  match s with EmptyString => [] | String c r => c :: chars r end.

Lemma chars_app a b : chars (a ++ b) = chars a ++ chars b.
Proof. induction a as [|c a IH]; simpl; [reflexivity|now rewrite IH]. Qed.

Lemma chars_length s : length (chars s) = String.length s.
Proof. induction s as [|c s IH]; simpl; [reflexivity|now rewrite IH]. Qed.

Definition last_ok (l : list ascii) : bool :=
  match rev l with [] => true | c :: _ => is_alnum c end.

(* first [body]* with an alphanumeric last character:  first([-a-z0-9]*[a-z0-9])?  anchored at both ends *)
Definition shape (first_ok : ascii -> bool) (l : list ascii) : bool :=
  match l with
  | [] => false
  | c :: r => first_ok c && forallb is_body r && last_ok r
  end.

(* the experiment-name rule of the validating webhook, ANCHORED:  ^[a-z]([-a-z0-9]*[a-z0-9])?$ *)
Definition name_rule (s : string) : bool := shape is_lower (chars s).
(* what the regexp of the pinned tree accepts (no `$`): some prefix matches, i.e. the first character is a letter *)
Definition name_rule_unanchored (s : string) : bool :=
  match s with EmptyString => false | String c _ => is_lower c end.

Definition dns1035_label (s : string) : bool := shape is_lower (chars s) && (String.length s <=? 63).
Definition dns1123_label (s : string) : bool := shape is_alnum (chars s) && (String.length s <=? 63).

(* split at dots *)
Fixpoint split_dot (l cur : list ascii) : list (list ascii) :=
  match l with
  | [] => [rev cur]
  | c :: r => if is_dot c then rev cur :: split_dot r [] else split_dot r (c :: cur)
  end.

Definition dns_subdomain (s : string) : bool :=
  forallb (shape is_alnum) (split_dot (chars s) []) && (String.length s <=? 253).

(* ------------------------------------------------------------------ lemmas *)

Lemma lower_alnum c : is_lower c = true -> is_alnum c = true.
Proof. unfold is_alnum. intros ->. reflexivity. Qed.

Lemma alnum_body c : is_alnum c = true -> is_body c = true.
Proof. unfold is_body. intros ->. reflexivity. Qed.

Lemma body_not_dot c : is_body c = true -> is_dot c = false.
Proof.
  unfold is_body, is_alnum, is_lower, is_digit, is_dash, is_dot.
  rewrite !orb_true_iff, !andb_true_iff, !Nat.leb_le, !Nat.eqb_eq. intro H.
  apply Nat.eqb_neq. lia.
Qed.

Lemma shape_weaken (f g : ascii -> bool) l : (forall c, f c = true -> g c = true) -> shape f l = true -> shape g l = true.
Proof.
  intros W. destruct l as [|c r]; simpl; [discriminate|].
  rewrite !andb_true_iff. intros [[F B] L]. auto.
Qed.

Lemma last_ok_app_nonempty a c b : last_ok (a ++ c :: b) = last_ok (c :: b).
Proof.
  unfold last_ok. rewrite rev_app_distr. simpl.
  destruct (rev b) as [|x r] eqn:E; simpl; reflexivity.
Qed.

Lemma shape_body f l : (forall c, f c = true -> is_body c = true) -> shape f l = true -> forallb is_body l = true.
Proof.
  intros W. destruct l as [|c r]; simpl; [discriminate|].
  rewrite !andb_true_iff. intros [[F B] L]. auto.
Qed.

Lemma shape_last f l : shape f l = true -> (forall c, f c = true -> is_alnum c = true) -> last_ok l = true.
Proof.
  destruct l as [|c r]; simpl; [discriminate|].
  rewrite !andb_true_iff. intros [[F B] L] W.
  destruct r as [|d r']; [unfold last_ok; simpl; auto|].
  change (c :: d :: r') with ([c] ++ d :: r'). now rewrite last_ok_app_nonempty.
Qed.

(* a ++ "-" ++ b keeps the shape of a when b is an alphanumeric-ended body string *)
Lemma shape_join f a b :
  shape f a = true -> forallb is_body b = true -> b <> [] -> last_ok b = true ->
  forall d, is_dash d = true -> shape f (a ++ d :: b) = true.
Proof.
  intros A B N L d D. destruct a as [|c r]; simpl in *; [discriminate|].
  rewrite !andb_true_iff in A. destruct A as [[F Br] _].
  rewrite !andb_true_iff. split; [split; [exact F|]|].
  - rewrite forallb_app. simpl. rewrite Br, B. unfold is_body. rewrite D, orb_true_r. reflexivity.
  - destruct b as [|x b']; [congruence|].
    replace (r ++ d :: x :: b') with ((r ++ [d]) ++ x :: b') by (rewrite <- app_assoc; reflexivity).
    now rewrite last_ok_app_nonempty.
Qed.

Lemma split_dot_nodot l cur : forallb is_body l = true -> split_dot l cur = [rev cur ++ l].
Proof.
  revert cur. induction l as [|c r IH]; intros cur; simpl.
  - now rewrite app_nil_r.
  - rewrite andb_true_iff. intros [B R]. rewrite (body_not_dot _ B), IH by exact R.
    simpl. now rewrite <- app_assoc.
Qed.

Lemma shape_subdomain s : shape is_alnum (chars s) = true -> String.length s <= 253 -> dns_subdomain s = true.
Proof.
  intros S L. unfold dns_subdomain.
  rewrite split_dot_nodot by (eapply shape_body; [apply alnum_body|exact S]).
  simpl. rewrite S. simpl. now apply Nat.leb_le.
Qed.

Lemma length_app_str a b : String.length (a ++ b) = String.length a + String.length b.
Proof. induction a as [|c a IH]; simpl; [reflexivity|now rewrite IH]. Qed.

(* The derived-name lemma: an (anchored-rule) experiment name joined by "-" with an alphanumeric-ended body suffix. *)
Lemma joined_name f n suffix :
  shape f (chars n) = true -> shape is_alnum (chars suffix) = true ->
  shape f (chars (n ++ "-" ++ suffix)) = true.
Proof.
  intros N S. rewrite chars_app. simpl.
  apply shape_join; auto.
  - eapply shape_body; [apply alnum_body|exact S].
  - destruct (chars suffix); [discriminate|congruence].
  - apply (shape_last _ _ S). auto.
Qed.

Example dns_examples :
  dns1035_label "abc-1" = true /\ dns1035_label "1abc" = false /\ dns1123_label "1abc" = true /\
  dns1035_label "a.b-x" = false /\ dns_subdomain "a.b-x" = true /\ dns_subdomain "a..b" = false /\
  dns_subdomain "a-" = false /\ dns_subdomain "aB" = false /\ name_rule "a.b" = false /\ name_rule_unanchored "a.b" = true.
Proof. repeat split; reflexivity. Qed.
