(* Strings packed into primitive 63-bit integers, for generated case files only.
   Coq 8.16 spends about 50 microseconds per character on a string literal (the literal is expanded through
   list Byte.byte by reduction); a primitive integer literal is a single node.  A word holds up to 7 bytes,
   big endian, under a leading marker byte 1:   "ab" = 0x01_61_62.   [pk ws] is the concatenation.
   Used by harness drivers through Corr modules that export this file; no theorem depends on it, its
   correctness is covered by the correspondence itself (a wrong decoding shows up as a mismatch). *)
From Coq Require Export Uint63.
From Coq Require Import String Ascii List.
Import ListNotations.

Definition byte_of_int (w : int) : ascii :=
  Ascii (bit w 0) (bit w 1) (bit w 2) (bit w 3) (bit w 4) (bit w 5) (bit w 6) (bit w 7).

Fixpoint unpack_word (fuel : nat) (w : int) (acc : string) : string :=
  match fuel with
  | O => acc
  | S f => if (w <=? 1)%uint63 then acc
           else unpack_word f (w >> 8)%uint63 (String (byte_of_int w) acc)
  end.

Definition pk (ws : list int) : string := fold_right (unpack_word 7) EmptyString ws.

Example pk_example : pk [1517774136421; 358]%uint63 = "abcdef"%string.
Proof. vm_compute. reflexivity. Qed.
