(* Generic condition lists: a line-by-line transcription of getCondition / hasCondition / removeCondition /
   setCondition, which pkg/apis/controller/{trials,experiments,suggestions}/v1beta1/util.go each define identically.
   Condition types and reasons are numbered by the harness (enums); messages and time stamps are not modelled:
   setCondition's "nothing changes" test only looks at status and reason. *)
From KV Require Import Base.Prelude.

Inductive cstatus := CTrue | CFalse | CUnknown.

Definition cstatus_eqb (a b : cstatus) : bool :=
  match a, b with CTrue, CTrue | CFalse, CFalse | CUnknown, CUnknown => true | _, _ => false end.

Lemma cstatus_eqb_spec a b : cstatus_eqb a b = true <-> a = b.
Proof. destruct a, b; simpl; split; congruence. Qed.

Record cond := { ctype : nat; cstat : cstatus; creason : nat }.

Definition cond_eqb (a b : cond) : bool :=
  Nat.eqb (ctype a) (ctype b) && cstatus_eqb (cstat a) (cstat b) && Nat.eqb (creason a) (creason b).

Lemma cond_eqb_spec a b : cond_eqb a b = true <-> a = b.
Proof.
  destruct a as [t s r], b as [t' s' r']. unfold cond_eqb. simpl.
  rewrite !andb_true_iff, !Nat.eqb_eq, cstatus_eqb_spec. split; [intros [[-> ->] ->]; reflexivity|intros [= -> -> ->]; auto].
Qed.

Definition conds := list cond.

Definition get_cond (cs : conds) (t : nat) : option cond := find (fun c => Nat.eqb (ctype c) t) cs.

Definition has_cond (cs : conds) (t : nat) : bool :=
  match get_cond cs t with
  | Some c => cstatus_eqb (cstat c) CTrue
  | None => false
  end.

Definition remove_cond (cs : conds) (t : nat) : conds := filter (fun c => negb (Nat.eqb (ctype c) t)) cs.

Definition set_cond (cs : conds) (t : nat) (st : cstatus) (r : nat) : conds :=
  match get_cond cs t with
  | Some c => if cstatus_eqb (cstat c) st && Nat.eqb (creason c) r then cs
              else remove_cond cs t ++ [{| ctype := t; cstat := st; creason := r |}]
  | None => remove_cond cs t ++ [{| ctype := t; cstat := st; creason := r |}]
  end.

(* The "Mark…" helpers of the three resource kinds all have one of these two shapes. *)

(* setCondition(t, True, reason) *)
Definition mark (cs : conds) (t r : nat) : conds := set_cond cs t CTrue r.

(* if a condition of type [off] exists, set it to False keeping its reason; then set [t] *)
Definition turn_off (cs : conds) (off : nat) : conds :=
  match get_cond cs off with
  | Some c => set_cond cs off CFalse (creason c)
  | None => cs
  end.

Definition last_type (cs : conds) : option nat :=
  match rev cs with [] => None | c :: _ => Some (ctype c) end.

(* ------------------------------------------------------------------ lemmas *)

Lemma get_remove_same cs t : get_cond (remove_cond cs t) t = None.
Proof.
  unfold get_cond, remove_cond. induction cs as [|c cs IH]; simpl; [reflexivity|].
  destruct (Nat.eqb (ctype c) t) eqn:E; simpl; [assumption|]. now rewrite E.
Qed.

Lemma get_remove_other cs t t' : t <> t' -> get_cond (remove_cond cs t) t' = get_cond cs t'.
Proof.
  intro N. unfold get_cond, remove_cond. induction cs as [|c cs IH]; simpl; [reflexivity|].
  destruct (Nat.eqb (ctype c) t) eqn:E; simpl.
  - apply Nat.eqb_eq in E. destruct (Nat.eqb (ctype c) t') eqn:E'; [apply Nat.eqb_eq in E'; congruence|assumption].
  - destruct (Nat.eqb (ctype c) t'); [reflexivity|assumption].
Qed.

Lemma get_app cs ds t : get_cond (cs ++ ds) t = match get_cond cs t with Some c => Some c | None => get_cond ds t end.
Proof.
  unfold get_cond. induction cs as [|c cs IH]; simpl; [reflexivity|].
  destruct (Nat.eqb (ctype c) t); [reflexivity|assumption].
Qed.

Lemma get_cond_type cs t c : get_cond cs t = Some c -> ctype c = t /\ In c cs.
Proof. unfold get_cond. intro H. apply find_some in H as [I E]. apply Nat.eqb_eq in E. auto. Qed.

Lemma get_set_same cs t st r :
  exists c, get_cond (set_cond cs t st r) t = Some c /\ cstat c = st /\ creason c = r /\ ctype c = t.
Proof.
  unfold set_cond. destruct (get_cond cs t) as [c|] eqn:G.
  - destruct (cstatus_eqb (cstat c) st && Nat.eqb (creason c) r) eqn:E.
    + apply andb_true_iff in E as [E1 E2]. apply cstatus_eqb_spec in E1. apply Nat.eqb_eq in E2.
      exists c. repeat split; auto. now apply get_cond_type in G.
    + rewrite get_app, get_remove_same. simpl. rewrite Nat.eqb_refl. eexists; repeat split; reflexivity.
  - rewrite get_app, get_remove_same. simpl. rewrite Nat.eqb_refl. eexists; repeat split; reflexivity.
Qed.

Lemma get_set_other cs t st r t' : t <> t' -> get_cond (set_cond cs t st r) t' = get_cond cs t'.
Proof.
  intro N. unfold set_cond.
  assert (A : get_cond (remove_cond cs t ++ [{| ctype := t; cstat := st; creason := r |}]) t' = get_cond cs t').
  { rewrite get_app, get_remove_other by assumption. destruct (get_cond cs t'); [reflexivity|].
    unfold get_cond. simpl. apply Nat.eqb_neq in N. now rewrite N. }
  destruct (get_cond cs t) as [c|]; [|exact A].
  destruct (cstatus_eqb (cstat c) st && Nat.eqb (creason c) r); [reflexivity|exact A].
Qed.

Lemma has_set cs t st r t' :
  has_cond (set_cond cs t st r) t' = if Nat.eqb t t' then cstatus_eqb st CTrue else has_cond cs t'.
Proof.
  unfold has_cond. destruct (Nat.eqb t t') eqn:E.
  - apply Nat.eqb_eq in E. subst t'. destruct (get_set_same cs t st r) as (c&->&S&_). now rewrite S.
  - apply Nat.eqb_neq in E. now rewrite get_set_other.
Qed.

Lemma has_turn_off cs off t' :
  has_cond (turn_off cs off) t' = if Nat.eqb off t' then false else has_cond cs t'.
Proof.
  unfold turn_off. destruct (get_cond cs off) as [c|] eqn:G.
  - now rewrite has_set.
  - destruct (Nat.eqb off t') eqn:E; [|reflexivity]. apply Nat.eqb_eq in E. subst. unfold has_cond. now rewrite G.
Qed.

(* types stay unique *)
Definition types_unique (cs : conds) : Prop := NoDup (map ctype cs).

Lemma remove_in cs t c : In c (remove_cond cs t) <-> In c cs /\ ctype c <> t.
Proof. unfold remove_cond. rewrite filter_In, negb_true_iff, Nat.eqb_neq. tauto. Qed.

Lemma remove_unique cs t : types_unique cs -> types_unique (remove_cond cs t).
Proof.
  unfold types_unique, remove_cond. induction cs as [|c cs IH]; simpl; [auto|]. intro H.
  inversion H as [|? ? Hn Hr]; subst. destruct (Nat.eqb (ctype c) t); simpl; [auto|].
  constructor; [|auto]. intro I. apply Hn. apply in_map_iff in I as (d&E&I). apply filter_In in I as [I _].
  apply in_map_iff. eauto.
Qed.

Lemma NoDup_snoc {A} (l : list A) x : NoDup l -> ~ In x l -> NoDup (l ++ [x]).
Proof.
  induction l as [|a l IH]; simpl; intros H N; [repeat constructor; intros []|].
  inversion H as [|? ? Ha Hl]; subst. constructor.
  - intro I. apply in_app_or in I as [I|[<-|[]]]; [auto|]. apply N. now left.
  - apply IH; [assumption|]. intro I. apply N. now right.
Qed.

Lemma set_unique cs t st r : types_unique cs -> types_unique (set_cond cs t st r).
Proof.
  intro H. unfold set_cond.
  assert (A : types_unique (remove_cond cs t ++ [{| ctype := t; cstat := st; creason := r |}])).
  { unfold types_unique. rewrite map_app. simpl. apply NoDup_snoc.
    - now apply remove_unique.
    - intro I. apply in_map_iff in I as (d&E&I). apply remove_in in I as [_ N]. congruence. }
  destruct (get_cond cs t) as [c|]; [|exact A].
  destruct (cstatus_eqb (cstat c) st && Nat.eqb (creason c) r); [exact H|exact A].
Qed.

Lemma turn_off_unique cs off : types_unique cs -> types_unique (turn_off cs off).
Proof. intro H. unfold turn_off. destruct (get_cond cs off); [now apply set_unique|exact H]. Qed.
