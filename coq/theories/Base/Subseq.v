(* Subsequences (order-preserving sublists) and partition of a list by a classifier. *)
From KV Require Import Base.Prelude.
From Coq Require Import Permutation.

Inductive subseq {A} : list A -> list A -> Prop :=
| subseq_nil : subseq [] []
| subseq_skip : forall x l1 l2, subseq l1 l2 -> subseq l1 (x :: l2)
| subseq_take : forall x l1 l2, subseq l1 l2 -> subseq (x :: l1) (x :: l2).

Lemma subseq_filter {A} (p : A -> bool) l : subseq (filter p l) l.
Proof. induction l as [|a r IH]; simpl; [constructor|]. destruct (p a); now constructor. Qed.

Lemma subseq_map {A B} (f : A -> B) l1 l2 : subseq l1 l2 -> subseq (map f l1) (map f l2).
Proof. induction 1; simpl; now constructor. Qed.

Lemma subseq_In {A} (l1 l2 : list A) x : subseq l1 l2 -> In x l1 -> In x l2.
Proof. induction 1; simpl; intuition. Qed.

Lemma subseq_length {A} (l1 l2 : list A) : subseq l1 l2 -> (length l1 <= length l2)%nat.
Proof. induction 1; simpl; lia. Qed.

(* two disjoint predicates split the filter of their disjunction *)
Lemma filter_orb_perm {A} (p q : A -> bool) l :
  (forall x, In x l -> p x && q x = false) ->
  Permutation (filter (fun x => p x || q x) l) (filter p l ++ filter q l).
Proof.
  induction l as [|a r IH]; intro D; simpl; [constructor|].
  assert (Dr : forall x, In x r -> p x && q x = false) by (intros x I; apply D; now right).
  specialize (IH Dr). specialize (D a (or_introl eq_refl)).
  destruct (p a) eqn:Pa, (q a) eqn:Qa; simpl in *; try discriminate.
  - now constructor.
  - now apply Permutation_cons_app.
  - assumption.
Qed.

(* a classifier into a duplicate-free list of classes partitions the elements whose class is listed *)
Lemma partition_perm {A K} (eqb : K -> K -> bool) (f : A -> K) (ks : list K) l :
  (forall a b, eqb a b = true <-> a = b) -> NoDup ks ->
  Permutation (flat_map (fun k => filter (fun x => eqb (f x) k) l) ks) (filter (fun x => existsb (eqb (f x)) ks) l).
Proof.
  intros E. induction ks as [|k ks IH]; intro N; simpl.
  - induction l; simpl; auto.
  - inversion N as [|? ? Nk Nks]; subst. apply Permutation_sym.
    eapply Permutation_trans; [apply filter_orb_perm|].
    + intros x _. destruct (eqb (f x) k) eqn:E1; [|reflexivity]. apply E in E1. simpl.
      destruct (existsb (eqb (f x)) ks) eqn:E2; [|reflexivity]. apply existsb_exists in E2 as (k'&I&E2).
      apply E in E2. congruence.
    + apply Permutation_app_head. apply Permutation_sym. now apply IH.
Qed.

Lemma filter_all {A} (p : A -> bool) l : (forall x, In x l -> p x = true) -> filter p l = l.
Proof.
  induction l as [|a r IH]; intro H; simpl; [reflexivity|].
  rewrite (H a (or_introl eq_refl)). f_equal. apply IH. intros x I. apply H. now right.
Qed.

Lemma NoDup_map_inj {A B} (f : A -> B) l x y : NoDup (map f l) -> In x l -> In y l -> f x = f y -> x = y.
Proof.
  induction l as [|a r IH]; simpl; intros N Ix Iy E; [contradiction|].
  inversion N as [|? ? Na Nr]; subst.
  destruct Ix as [<-|Ix], Iy as [<-|Iy]; auto.
  - exfalso. apply Na. rewrite E. now apply in_map.
  - exfalso. apply Na. rewrite <- E. now apply in_map.
Qed.
