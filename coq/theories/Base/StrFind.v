(* Substring search and replacement on Coq strings, as Go's strings.Contains and strings.Replace(s, old, new, -1)
   (left to right, non overlapping) behave for a NON-EMPTY [old]. Used by the C14 model (validator dry run, generator). *)
From KV Require Import Base.Prelude.

Fixpoint str_mem (x : string) (l : list string) : bool :=
  match l with [] => false | y :: r => String.eqb x y || str_mem x r end.

Lemma str_mem_In x l : str_mem x l = true <-> In x l.
Proof.
  induction l as [|y r IH]; simpl; [split; [discriminate|tauto]|].
  rewrite orb_true_iff, IH, String.eqb_eq. split; intros [H|H]; auto.
Qed.

Lemma str_mem_false x l : str_mem x l = false <-> ~ In x l.
Proof. rewrite <- str_mem_In. destruct (str_mem x l); split; congruence. Qed.

(* strings.Contains(s, sub) *)
Fixpoint str_contains (sub s : string) : bool :=
  String.prefix sub s || match s with EmptyString => false | String _ r => str_contains sub r end.

(* strings.Replace(s, old, new, -1) for old <> "": [skip] characters of a match still have to be dropped *)
Fixpoint replace_from (old new s : string) (skip : nat) : string :=
  match s with
  | EmptyString => EmptyString
  | String c r =>
      match skip with
      | S k => replace_from old new r k
      | O => if String.prefix old s then new ++ replace_from old new r (String.length old - 1)
             else String c (replace_from old new r 0)
      end
  end.

Definition replace_all (s old new : string) : string :=
  match old with EmptyString => s | _ => replace_from old new s 0 end.

Example replace_all_ex1 : replace_all "a${x}b${x}" "${x}" "v" = "avbv"%string. Proof. reflexivity. Qed.
Example replace_all_ex2 : replace_all "aaa" "aa" "b" = "ba"%string. Proof. reflexivity. Qed.
Example str_contains_ex : str_contains "lo w" "hello world" = true /\ str_contains "low" "hello world" = false.
Proof. split; reflexivity. Qed.
