(* Shared helpers for every model: byte strings coming from the harness, outcomes, small list tools. *)
From Coq Require Export String Ascii.
From Coq Require Export List ZArith Lia Bool Arith.
Export ListNotations.

(* A string given by its bytes; used by generated case files for non printable text. *)
Fixpoint sb (l : list nat) : string :=
  match l with
  | [] => EmptyString
  | n :: r => String (ascii_of_nat n) (sb r)
  end.

(* Result of a Go function that may return an error or panic. *)
Inductive outcome (A : Type) : Type :=
| Ok (a : A)
| Err (code : nat)      (* an ordinary Go error; the code identifies the return site *)
| Crash (site : nat).   (* a run-time panic (nil dereference, index out of range) at a modelled site *)
Arguments Ok {A} a.
Arguments Err {A} code.
Arguments Crash {A} site.

Definition is_ok {A} (o : outcome A) : bool := match o with Ok _ => true | _ => false end.
Definition is_crash {A} (o : outcome A) : bool := match o with Crash _ => true | _ => false end.

(* Indices of the cases that fail a boolean check; cases arrive tagged with their global index. *)
Definition failing {A} (ok : A -> bool) (cs : list (nat * A)) : list nat :=
  map fst (filter (fun c => negb (ok (snd c))) cs).

Lemma failing_nil {A} (ok : A -> bool) cs :
  failing ok cs = [] <-> forall i c, In (i, c) cs -> ok c = true.
Proof.
  unfold failing. induction cs as [|[i c] cs IH]; simpl.
  - split; [intros _ ? ? []|reflexivity].
  - destruct (ok c) eqn:E; simpl.
    + rewrite IH. split.
      * intros H j d [[= <- <-]|Hin]; [exact E|eauto].
      * intros H j d Hin. apply (H j d). now right.
    + split; [discriminate|]. intro H. specialize (H i c (or_introl eq_refl)). congruence.
Qed.

Fixpoint list_eqb {A} (eqb : A -> A -> bool) (l1 l2 : list A) : bool :=
  match l1, l2 with
  | [], [] => true
  | a :: r1, b :: r2 => eqb a b && list_eqb eqb r1 r2
  | _, _ => false
  end.

Lemma list_eqb_spec {A} (eqb : A -> A -> bool) :
  (forall a b, eqb a b = true <-> a = b) -> forall l1 l2, list_eqb eqb l1 l2 = true <-> l1 = l2.
Proof.
  intros H l1. induction l1 as [|a r IH]; intros [|b r2]; simpl; try (split; congruence).
  rewrite andb_true_iff, H, IH. split; [intros [E1 E2]; subst; reflexivity|intros [= E1 E2]; subst; auto].
Qed.

Definition option_eqb {A} (eqb : A -> A -> bool) (a b : option A) : bool :=
  match a, b with
  | None, None => true
  | Some x, Some y => eqb x y
  | _, _ => false
  end.

Lemma option_eqb_spec {A} (eqb : A -> A -> bool) :
  (forall a b, eqb a b = true <-> a = b) -> forall a b, option_eqb eqb a b = true <-> a = b.
Proof.
  intros H [a|] [b|]; simpl; try (split; congruence).
  rewrite H. split; congruence.
Qed.
