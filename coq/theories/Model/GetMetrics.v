(* Model of getMetrics (pkg/controller.v1beta1/trial/trial_controller_util.go).
   Names and value texts are interned by the harness: text id 0 is the literal "unavailable"
   (consts.UnavailableMetricValue).  strconv.ParseFloat and time.Parse are evaluated by the harness:
   [vnum] is the exact number denoted by the text when ParseFloat succeeds, in units of 1/1024,
   [ets] the instant in nanoseconds when the RFC3339Nano parse succeeds. *)
From KV Require Import Base.Prelude.
Open Scope Z_scope.

Definition unavailable : nat := 0%nat.

Record entry := { ename : nat; vtext : nat; vnum : option Z; ets : option Z }.

(* One metric of the observation: min / max / latest texts, and the timestamp kept for "latest". *)
Record summary := { smin : nat; smax : nat; slatest : nat; sts : option Z;
                    (* ghost: numbers denoted by the current min and max texts *)
                    nmin : Z; nmax : Z }.

Definition empty : summary :=
  {| smin := unavailable; smax := unavailable; slatest := unavailable; sts := None; nmin := 0; nmax := 0 |}.

(* The min/max part of the loop body. *)
Definition upd_minmax (s : summary) (e : entry) : summary :=
  match vnum e with
  | Some f =>
      if Nat.eqb (smin s) unavailable then
        {| smin := vtext e; smax := vtext e; slatest := slatest s; sts := sts s; nmin := f; nmax := f |}
      else if f <? nmin s then
        {| smin := vtext e; smax := smax s; slatest := slatest s; sts := sts s; nmin := f; nmax := nmax s |}
      else if nmax s <? f then
        {| smin := smin s; smax := vtext e; slatest := slatest s; sts := sts s; nmin := nmin s; nmax := f |}
      else s
  | None => s
  end.

(* The "latest" part: [timestamp == nil || !timestamp.After(currentTime)]. *)
Definition upd_latest (s : summary) (e : entry) (t : Z) : summary :=
  let newer := match sts s with None => true | Some t0 => negb (t <? t0) end in
  if newer then {| smin := smin s; smax := smax s; slatest := vtext e; sts := Some t; nmin := nmin s; nmax := nmax s |}
  else s.

(* One iteration for a tracked metric; None = the timestamp does not parse (the function returns an error). *)
Definition upd (s : summary) (e : entry) : option summary :=
  let s1 := upd_minmax s e in
  match ets e with
  | Some t => Some (upd_latest s1 e t)
  | None => None
  end.

Fixpoint fold_upd (s : summary) (l : list entry) : option summary :=
  match l with
  | [] => Some s
  | e :: r => match upd s e with Some s' => fold_upd s' r | None => None end
  end.

Definition of_name (m : nat) (l : list entry) : list entry := filter (fun e => Nat.eqb (ename e) m) l.

(* Summary of metric [m]: the Go loop only touches metrics[name of the entry]. *)
Definition summarize (m : nat) (l : list entry) : option summary := fold_upd empty (of_name m l).

Fixpoint dedup (l : list nat) : list nat :=
  match l with
  | [] => []
  | a :: r => if existsb (Nat.eqb a) r then dedup r else a :: dedup r
  end.

Definition tracked (strategies : list nat) (e : entry) : bool := existsb (Nat.eqb (ename e)) strategies.

(* The whole function.  The Go map has one key per distinct strategy name; its iteration order is
   random, so the result is a set of (name, summary): we list it in [dedup] order and compare as maps. *)
Definition get_metrics (strategies : list nat) (l : list entry) : outcome (list (nat * (nat * nat * nat))) :=
  if forallb (fun e => match ets e with Some _ => true | None => negb (tracked strategies e) end) l then
    Ok (map (fun m => match summarize m l with
                      | Some s => (m, (smin s, smax s, slatest s))
                      | None => (m, (unavailable, unavailable, unavailable)) (* unreachable under the guard *)
                      end) (dedup strategies))
  else Err 1%nat.
