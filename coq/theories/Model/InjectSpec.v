(* Specification-level notions for C12, written independently of the step-by-step model of Mutate in Inject.v:
   what "descends from a Trial" means, what the labels of an admitted pod are, and what every container of a
   mutated primary pod looks like, position by position.  Used by the theorems (Props/C12.v) and, in boolean
   form, by the monitor (Corr/C12.v). *)
From KV Require Import Base.Prelude Model.Inject.
Open Scope string_scope.
Open Scope list_scope.

(* ------------------------------------------------------------------ ownership *)
(* [descends K cl ns kind name owners job]: the object (kind, name, owners) of namespace ns is, or has an ancestor along
   resolvable owner references that is, an object with a non-empty kind and an owner reference to a Trial; job is the
   name of that object (by katib's convention the Trial's name). *)
Inductive descends (K : consts) (cl : list object) (ns : string) : string -> string -> list oref -> string -> Prop :=
| D_here kind name owners :
    kind <> "" -> existsb (is_trial_ref K) owners = true -> descends K cl ns kind name owners name
| D_up kind name owners r o job :
    In r owners -> resolve cl ns r = Some o -> descends K cl ns (o_kind o) (o_name o) (o_owners o) job ->
    descends K cl ns kind name owners job.

(* names of the nearest such objects within depth [fuel], over ALL owners (no error stops the search) *)
Fixpoint jobs (K : consts) (cl : list object) (ns : string) (fuel : nat) (kind name : string) (owners : list oref) : list string :=
  match fuel with
  | O => []
  | S f =>
      if existsb (is_trial_ref K) owners && negb (seqb kind "") then [name]
      else flat_map (fun r => match resolve cl ns r with
                              | Some o => jobs K cl ns f (o_kind o) (o_name o) (o_owners o)
                              | None => []
                              end) owners
  end.

(* every owner reference met within depth [fuel] below the nearest jobs parses and resolves, and the search bottoms out
   before the fuel does *)
Fixpoint regular (K : consts) (cl : list object) (ns : string) (fuel : nat) (kind : string) (owners : list oref) : bool :=
  match fuel with
  | O => false
  | S f =>
      (existsb (is_trial_ref K) owners && negb (seqb kind "")) ||
      forallb (fun r => match resolve cl ns r with
                        | Some o => regular K cl ns f (o_kind o) (o_owners o)
                        | None => false
                        end) owners
  end.

(* acyclicity of the ownership graph, given by a rank that decreases along resolvable owner references *)
Definition ranked (cl : list object) (ns : string) (rank : object -> nat) : Prop :=
  forall o r o', In o cl -> In r (o_owners o) -> resolve cl ns r = Some o' -> rank o' < rank o.

(* ------------------------------------------------------------------ labels *)
(* the labels of every admitted pod of a Trial, as a finite map: Trial name, else the Trial's label, else the pod's *)
Definition expected_label (K : consts) (t : trial) (pl : labels) (k : string) : option string :=
  if seqb k (k_label_trial K) then Some (t_name t)
  else match lookup_label k (rev (t_labels t)) with
       | Some v => Some v
       | None => lookup_label k pl
       end.

(* ------------------------------------------------------------------ containers, position by position *)
Fixpoint mapi_from {A B} (f : nat -> A -> B) (n : nat) (l : list A) : list B :=
  match l with
  | [] => []
  | a :: r => f n a :: mapi_from f (S n) r
  end.
Definition mapi {A B} (f : nat -> A -> B) (l : list A) : list B := mapi_from f 0 l.

Definition metrics_mount (W : world) (mp : string) (is_file : bool) : mount :=
  Mount (k_metrics_volume (w_consts W)) (metrics_dir W mp is_file) "" 0.

Definition sugg_checkpoint (W : world) (t : trial) : string :=
  match find_suggestion W (t_ns t) (experiment_name (w_consts W) t) with
  | Some s => checkpoint_path (k_sugg_mount_key (w_consts W)) (sg_settings s)
  | None => ""
  end.

Definition sugg_mount (W : world) (t : trial) : mount :=
  Mount (k_sugg_volume (w_consts W)) (sugg_checkpoint W t) (t_ckpt t) 0.

(* the shell wrapper around the command line [argv] *)
Definition wrapped (W : world) (t : trial) (mp : string) (is_file : bool) (argv : list string) (c : container) : container :=
  set_cmd (fst (split_shell argv)) [String.concat " " (snd (split_shell argv) ++ wrap_tail W t mp is_file)] c.

(* container number [i] of the mutated primary pod; [pidx] is the position of the primary container, [argv] its
   command line, [col] the name of the collector container, [mp] the metrics path ("" = the collector reads no file) *)
Definition expected_container (W : world) (t : trial) (col : string) (mp : string) (is_file : bool)
           (pidx : nat) (argv : list string) (i : nat) (c : container) : container :=
  let c1 := if Nat.eqb i pidx then add_env (trial_env (w_consts W)) c else c in
  let c2 := if Nat.eqb i pidx && negb (seqb (sugg_checkpoint W t) "") then add_mount (sugg_mount W t) c1 else c1 in
  let c3 := if negb (seqb mp "") && (seqb (c_name c) col || seqb (c_name c) (t_primary_container t))
            then add_mount (metrics_mount W mp is_file) c2 else c2 in
  if Nat.eqb i pidx && need_wrap (t_kind t) then wrapped W t mp is_file argv c3 else c3.

Definition expected_collector (W : world) (mp : string) (is_file : bool) (col : container) : container :=
  if negb (seqb mp "") then add_mount (metrics_mount W mp is_file) col else col.

Definition expected_volumes (W : world) (t : trial) (mp : string) (vs : list volume) : list volume :=
  vs ++
  (if seqb (sugg_checkpoint W t) "" then []
   else match find_suggestion W (t_ns t) (experiment_name (w_consts W) t) with
        | Some s => [Vol (k_sugg_volume (w_consts W)) (VPVC (sg_pvc s))]
        | None => []
        end) ++
  (if seqb mp "" then [] else [Vol (k_metrics_volume (w_consts W)) VEmptyDir]).

(* the arguments of a built-in collector, written out *)
Definition expected_args (W : world) (t : trial) (cfg : mcconfig) (mp : string) (endpoint : string) : list string :=
  let K := w_consts W in
  ["-t"; t_name t; "-m"; metric_names t; "-o-type"; t_obj_type t; "-s-db"; k_db_addr K] ++
  (if seqb mp "" then [] else ["-path"; mp]) ++
  (match t_source t with
   | Some s => match s_formats s with [] => [] | fs => ["-f"; String.concat ";" fs] end
   | None => []
   end) ++
  (match t_kind t with
   | KFile => match t_source t with Some (Source (Some fp) _) => ["-format"; fp_format fp] | _ => [] end
   | KStdOut => ["-format"; k_text_format K]
   | _ => []
   end) ++
  (match mc_wait cfg with Some b => ["-w"; bool_text b] | None => [] end) ++
  (match t_rules t with
   | [] => []
   | rules => flat_map (fun r => ["-stop-rule"; rule_text r]) rules ++ ["-s-earlystop"; endpoint]
   end).

(* ------------------------------------------------------------------ the conditions under which a primary pod must be admitted *)
(* File and TensorFlowEvent collectors need source.fileSystemPath (the experiment webhook demands it) *)
Definition source_ok (t : trial) : bool :=
  match t_kind t with
  | KFile | KTfEvent => match t_source t with Some (Source (Some _) _) => true | _ => false end
  | _ => true
  end.

Definition suggestion_exists (W : world) (t : trial) : bool :=
  match find_suggestion W (t_ns t) (experiment_name (w_consts W) t) with Some _ => true | None => false end.

Definition experiment_exists (W : world) (t : trial) : bool :=
  existsb (fun e => seqb (fst e) (t_ns t) && seqb (snd e) (experiment_name (w_consts W) t)) (w_experiments W).

(* a custom collector is given, or katib-config has an entry with a non-blank image for the collector kind *)
Definition collector_ready (W : world) (t : trial) : bool :=
  match t_kind t with
  | KCustom => match t_custom t with Some _ => true | None => false end
  | _ => match collector_config W t with Ok _ => true | _ => false end && source_ok t
  end.

(* ------------------------------------------------------------------ the collector container, before the metrics mount *)
Definition es_endpoint (W : world) (t : trial) : string :=
  match find_suggestion W (t_ns t) (experiment_name (w_consts W) t) with Some s => sg_endpoint s | None => "" end.

Definition expected_collector_base (W : world) (t : trial) (p : pod) : option container :=
  match t_kind t with
  | KCustom => t_custom t
  | _ =>
      match w_config W, get_mount_path (w_consts W) t with
      | Cfg l, Ok (mp, _) =>
          match find_mc_config l (t_kind_text t) with
          | Some cfg =>
              Some (Ctr (sidecar_name (w_consts W) (t_kind t)) (mc_image cfg) []
                        (expected_args W t cfg mp (es_endpoint W t)) [] []
                        (mc_pull cfg) (mc_resources cfg)
                        (if w_inject_secctx W then match p_containers p with c :: _ => c_secctx c | [] => 0 end else 0) 0)
          | None => None
          end
      | _, _ => None
      end
  end.

(* all the conditions under which the primary pod of a Trial must be admitted *)
Definition admissible (W : world) (t : trial) (p : pod) : bool :=
  match primary_index (p_containers p) (t_primary_container t) with
  | Some i => match nth_error (p_containers p) i with
              | Some pc => (negb (need_wrap (t_kind t)) || match c_command pc with [] => false | _ => true end)
              | None => false
              end
  | None => false
  end && collector_ready W t && experiment_exists W t && suggestion_exists W t.
