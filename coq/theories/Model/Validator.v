(* C14 model: defaulting + validation of an Experiment, and the part of the trial generator that decides
   whether a trial can be built.  Executable definitions only; proofs are in Proofs/ValidatorP.v.

   Transcribed from
     pkg/apis/controller/experiments/v1beta1/experiment_defaults.go   (Experiment.SetDefault)          -> set_default
     pkg/webhook/v1beta1/experiment/validator/validator.go            (DefaultValidator.ValidateExperiment and helpers) -> validate_gen
         (the REPAIRED validator: rule 59 = duplicate-parameter-name / F8b, rule 60 = unreferenced-parameter / F8)
     pkg/util/v1beta1/katibconfig/config.go                           (Get*ConfigData: last match wins, image must be non blank)
     pkg/controller.v1beta1/experiment/manifest/generator.go          (GetTrialTemplate, applyParameters) -> get_trial_template, apply_parameters
     pkg/controller.v1beta1/util/suggestion.go, suggestionclient.go   (derived names)                   -> suggestion_resource_name, trial_name

   Every Go pointer is an [option]; a nil dereference at a site the code really has is [Crash site].
   Every [field.Error] site has a rule number (table below); an error is (rule, index) with the slice index for per-element rules.

   NOT modelled, supplied by the harness with each case (results of library calls on the concrete input):
     - regexps on trial-parameter references (tp_sub / tp_idx = submatches of TrialTemplateMetaReplaceFormatRegex and
       TrialTemplateMetaParseFormatRegex), on metrics filters (ff_compiles, ff_two);
     - filepath.IsAbs, strings.HasPrefix(path,"/"), strconv.Atoi of the port (pathk, hpath, hg_port);
     - the JSON text of an inline trialSpec (ts_str) and its kind class (ts_kind);
     - the tail of the validator's dry run, i.e. everything after the substitution loop: whether the regexp still finds a
       placeholder, whether the YAML/JSON decoder accepts the substituted text, and what it finds in it (tplfacts).
       The substituted text itself IS modelled (str_contains / replace_all); the harness computes it independently and the
       model refuses to use the facts when the two texts differ (rule 900).
     - spec.objective.metricStrategies defaulting, primaryPodLabels defaulting, algorithm settings, NAS operations: not modelled
       (no validation rule or pointer dereference depends on them). *)
From KV Require Export Base.Prelude Base.StrFind Base.DnsName.
Open Scope string_scope.
Open Scope list_scope.
Open Scope Z_scope.

(* ------------------------------------------------------------------ the experiment *)

Inductive otype := OMin | OMax | OOther.
Record objective := { o_type : otype; o_metric : string; o_additional : list string }.

Inductive resume := REmpty | RNever | RLong | RVolume | ROther.

Inductive ptype := PInt | PDouble | PCat | PDisc | PUnknown | POther.
Inductive dist := DEmpty | DUniform | DLogUniform | DNormal | DLogNormal | DUnknown | DOther.
Record param := { p_name : string; p_type : ptype; p_min_empty : bool; p_max_empty : bool; p_step_empty : bool;
                  p_list_len : nat; p_dist : dist }.

Inductive jobkind := JKJob | JKKubeflow | JKOther.
Record tparam := { tp_name : string; tp_ref : string;
                   tp_sub : option string;               (* group 1 of \$\{trialSpec\.(.+?)\} on the reference *)
                   tp_idx : option (string * string) }.  (* groups of (.+)\[(.+)] on that group *)
Record tspec := { ts_kind : jobkind; ts_str : option string }.   (* ConvertUnstructuredToString; None = error *)
Record cmsrc := { cm_name : string; cm_ns : string; cm_path : string }.
Record template := { t_primary_empty : bool; t_succ_empty : bool; t_fail_empty : bool;
                     t_params : option (list tparam);     (* None = nil slice *)
                     t_spec : option tspec; t_cm : option cmsrc }.

Inductive ckind := CStdOut | CFile | CTfEvent | CPrometheus | CCustom | CPush | COther.
Inductive pathk := PEmpty | PAbs | PRel.
Inductive fskind := FKEmpty | FKFile | FKDir | FKOther.
Inductive fformat := FFEmpty | FFText | FFJson | FFOther.
Record fspath := { fp_path : pathk; fp_kind : fskind; fp_format : fformat }.
Inductive hpath := HEmpty | HSlash | HOther.
Record httpget := { hg_path : hpath; hg_port_zero : bool (* Port.String() == "0" *); hg_port : option Z (* Atoi *) }.
Record filterfmt := { ff_compiles : bool; ff_two : bool }.
Record source := { s_http : option httpget; s_fs : option fspath; s_filter : option (list filterfmt) }.
Record collector := { c_kind : ckind; c_custom : bool }.
Record mcspec := { mc_source : option source; mc_collector : option collector }.

Record experiment := {
  e_name : string;
  e_par : option Z; e_max : option Z; e_mf : option Z;
  e_objective : option objective;
  e_algorithm : option string;       (* spec.algorithm.algorithmName *)
  e_early : option string;           (* spec.earlyStopping.algorithmName *)
  e_resume : resume;
  e_params : list param;
  e_nas : bool;                      (* spec.nasConfig != nil *)
  e_template : option template;
  e_mc : option mcspec }.

(* ------------------------------------------------------------------ environment *)

Record config := { c_sug : list (string * bool); c_es : list (string * bool); c_mc : list (ckind * bool) }.
  (* per entry: key and "strings.TrimSpace(image) != """ *)

Record convres := { cv_named : bool;        (* GetName() != "" || GetNamespace() != "" *)
                    cv_nogvk : bool;        (* GetAPIVersion() == "" || GetKind() == "" *)
                    cv_joberr : bool }.     (* validateTrialJob(runSpec) != nil *)
Record tplfacts := { tf_final : string;     (* the text after the substitution loop, computed by the harness *)
                     tf_unreplaced : bool;  (* the placeholder regexp still matches in it *)
                     tf_conv : option convres;    (* ConvertStringToUnstructured of it; None = error *)
                     tf_raw_conv : bool;    (* the UNsubstituted template converts (generator, configMap source only) *)
                     tf_labels : list string; tf_annotations : list string }.   (* keys of the template's labels / annotations *)

Record env := { cfg : option config;       (* None: katib-config cannot be read *)
                cms : list ((string * string) * list (string * string));   (* (namespace, name) -> data *)
                facts : tplfacts }.

(* ------------------------------------------------------------------ small helpers *)

Definition ckind_eqb (a b : ckind) : bool :=
  match a, b with
  | CStdOut, CStdOut | CFile, CFile | CTfEvent, CTfEvent | CPrometheus, CPrometheus | CCustom, CCustom
  | CPush, CPush | COther, COther => true
  | _, _ => false
  end.

Fixpoint lookup_last {K V} (eqb : K -> K -> bool) (k : K) (l : list (K * V)) : option V :=
  match l with
  | [] => None
  | (k', v) :: r => match lookup_last eqb k r with Some w => Some w | None => if eqb k k' then Some v else None end
  end.

Fixpoint lookup_first {K V} (eqb : K -> K -> bool) (k : K) (l : list (K * V)) : option V :=
  match l with
  | [] => None
  | (k', v) :: r => if eqb k k' then Some v else lookup_first eqb k r
  end.

(* katibconfig.Get…ConfigData: true = found with a non blank image *)
Definition config_ok {K} (eqb : K -> K -> bool) (k : K) (tbl : option (list (K * bool))) : bool :=
  match tbl with
  | None => false
  | Some l => match lookup_last eqb k l with Some img => img | None => false end
  end.

Definition pair_eqb (a b : string * string) : bool := String.eqb (fst a) (fst b) && String.eqb (snd a) (snd b).

Definition is_empty (s : string) : bool := match s with EmptyString => true | _ => false end.

(* ------------------------------------------------------------------ SetDefault *)

Definition default_template (t : template) : template :=
  match t_spec t with
  | Some s =>
      match ts_kind s with
      | JKJob | JKKubeflow =>
          {| t_primary_empty := t_primary_empty t; t_succ_empty := false; t_fail_empty := false;
             t_params := t_params t; t_spec := t_spec t; t_cm := t_cm t |}
      | JKOther => t
      end
  | None => t
  end.

Definition default_fs (dk : fskind) (fmt_default : bool) (f : fspath) : fspath :=
  {| fp_path := match fp_path f with PEmpty => PAbs | p => p end;
     fp_kind := match fp_kind f with FKEmpty => dk | k => k end;
     fp_format := if fmt_default then match fp_format f with FFEmpty => FFText | x => x end else fp_format f |}.

Definition empty_fs : fspath := {| fp_path := PEmpty; fp_kind := FKEmpty; fp_format := FFEmpty |}.
Definition empty_source : source := {| s_http := None; s_fs := None; s_filter := None |}.
Definition empty_http : httpget := {| hg_path := HEmpty; hg_port_zero := true; hg_port := Some 0 |}.

Definition default_http (h : httpget) : httpget :=
  {| hg_path := match hg_path h with HEmpty => HSlash | p => p end;
     hg_port_zero := false;
     hg_port := if hg_port_zero h then Some 8080 else hg_port h |}.

Definition default_source (k : ckind) (so : option source) : option source :=
  match k with
  | CPrometheus =>
      let s := match so with Some s => s | None => empty_source end in
      let h := match s_http s with Some h => h | None => empty_http end in
      Some {| s_http := Some (default_http h); s_fs := s_fs s; s_filter := s_filter s |}
  | CFile =>
      let s := match so with Some s => s | None => empty_source end in
      let f := match s_fs s with Some f => f | None => empty_fs end in
      Some {| s_http := s_http s; s_fs := Some (default_fs FKFile true f); s_filter := s_filter s |}
  | CTfEvent =>
      let s := match so with Some s => s | None => empty_source end in
      let f := match s_fs s with Some f => f | None => empty_fs end in
      Some {| s_http := s_http s; s_fs := Some (default_fs FKDir false f); s_filter := s_filter s |}
  | _ => so
  end.

Definition default_mc (m : option mcspec) : mcspec :=
  let m0 := match m with Some x => x | None => {| mc_source := None; mc_collector := None |} end in
  let col := match mc_collector m0 with Some c => c | None => {| c_kind := CStdOut; c_custom := false |} end in
  {| mc_source := default_source (c_kind col) (mc_source m0); mc_collector := Some col |}.

Definition default_param (p : param) : param :=
  {| p_name := p_name p; p_type := p_type p; p_min_empty := p_min_empty p; p_max_empty := p_max_empty p;
     p_step_empty := p_step_empty p; p_list_len := p_list_len p;
     p_dist := match p_dist p with DEmpty => DUniform | d => d end |}.

Definition set_default (e : experiment) : experiment :=
  {| e_name := e_name e;
     e_par := match e_par e with None => Some 3 | x => x end;
     e_max := e_max e; e_mf := e_mf e;
     e_objective := e_objective e;
     e_algorithm := e_algorithm e; e_early := e_early e;
     e_resume := match e_resume e with REmpty => RNever | r => r end;
     e_params := map default_param (e_params e);
     e_nas := e_nas e;
     e_template := option_map default_template (e_template e);
     e_mc := Some (default_mc (e_mc e)) |}.

(* ------------------------------------------------------------------ rules *)
(*  1 metadata.name invalid            2 maxFailedTrialCount < 0          3 maxTrialCount <= 0
    4 parallelTrialCount <= 0          5 maxFailed > max                  6 parallel > max
    7 (update) not restartable         8 (update) max <= status.trials    9 (update) spec change forbidden
   10 objective required              11 objective.type invalid          12 objectiveMetricName required
   13 additionalMetricNames contains the objective metric
   14 algorithm required              15 algorithmName required          16 no suggestion config for the algorithm
   17 earlyStopping.algorithmName required                               18 no early-stopping config
   19 resumePolicy invalid
   20 parameters[i].parameterType     21 parameters[i].distribution      22 parameters[i].feasibleSpace required
   23 parameters[i] list with int/double                                 24 parameters[i] min or max missing
   25 parameters[i] min/max/step with categorical/discrete
   26 trialTemplate required          27 primaryContainerName required   28 success/failureCondition required
   29 trialParameters required        30 trialSpec or configMap required 31 both trialSpec and configMap
   32 configMap fields required       33 template cannot be fetched      34 trialParameters[i] name/reference malformed
   35 trialParameters[i].name duplicated                                 36 trialParameters[i].reference duplicated
   37 trialParameters[i].reference not in spec.parameters                38 trialParameters[i].name not used in the template
   39 placeholders left in the template                                  40 template is not YAML/JSON
   41 metadata.name/namespace present 42 apiVersion/kind missing         43 not a valid batch Job
   44 neither parameters nor nasConfig                                   45 both parameters and nasConfig
   46 no metrics-collector config     47 File: path/kind                 48 File: format
   49 File: filter with JSON          50 TfEvent: path/kind              51 TfEvent: format set
   52 Prometheus: port                53 Prometheus: path                54 Custom: customCollector required
   55 Custom: fileSystemPath invalid  56 collector kind invalid          57 filter[i] does not compile
   58 filter[i] lacks two groups      59 parameters[i].name duplicated   60 parameters[i].name not referenced by trialParameters
  900 harness and model disagree on the substituted template text (never produced by Go) *)
Definition err := (nat * nat)%type.
Definition E (rule : nat) : list err := [(rule, 0%nat)].
Definition when (b : bool) (l : list err) : list err := if b then l else [].

Definition budget_errs (e : experiment) : list err :=
  when (negb (name_rule (e_name e)) || (40 <? String.length (e_name e))%nat) (E 1) ++
  when (match e_mf e with Some f => f <? 0 | None => false end) (E 2) ++
  when (match e_max e with Some m => m <=? 0 | None => false end) (E 3) ++
  when (match e_par e with Some p => p <=? 0 | None => false end) (E 4) ++
  when (match e_mf e, e_max e with Some f, Some m => m <? f | _, _ => false end) (E 5) ++
  when (match e_par e, e_max e with Some p, Some m => m <? p | _, _ => false end) (E 6).

Definition objective_errs (o : option objective) : list err :=
  match o with
  | None => E 10
  | Some ob =>
      when (match o_type ob with OOther => true | _ => false end) (E 11) ++
      when (is_empty (o_metric ob)) (E 12) ++
      when (str_mem (o_metric ob) (o_additional ob)) (E 13)
  end.

Definition algorithm_errs (c : option config) (a : option string) : list err :=
  match a with
  | None => E 14
  | Some n => when (is_empty n) (E 15) ++ when (negb (config_ok String.eqb n (option_map c_sug c))) (E 16)
  end.

Definition early_errs (c : option config) (a : option string) : list err :=
  match a with
  | None => []
  | Some n => when (is_empty n) (E 17) ++ when (negb (config_ok String.eqb n (option_map c_es c))) (E 18)
  end.

Definition resume_errs (r : resume) : list err := when (match r with ROther => true | _ => false end) (E 19).

Definition fs_is_zero (p : param) : bool :=
  p_min_empty p && p_max_empty p && p_step_empty p && (p_list_len p =? 0)%nat && match p_dist p with DEmpty => true | _ => false end.

Definition param_errs (i : nat) (p : param) : list err :=
  when (match p_type p with POther => true | _ => false end) [(20%nat, i)] ++
  when (match p_dist p with DOther => true | _ => false end) [(21%nat, i)] ++
  (if fs_is_zero p then [(22%nat, i)]
   else match p_type p with
        | PInt | PDouble =>
            when (0 <? p_list_len p)%nat [(23%nat, i)] ++ when (p_max_empty p || p_min_empty p) [(24%nat, i)]
        | PCat | PDisc =>
            when (negb (p_max_empty p) || negb (p_min_empty p) || negb (p_step_empty p)) [(25%nat, i)]
        | _ => []
        end).

(* validateParameters; [seen] = the names of the entries before index i (rule 59, repair of duplicate-parameter-name) *)
Fixpoint params_errs (i : nat) (seen : list string) (ps : list param) : list err :=
  match ps with
  | [] => []
  | p :: r => when (str_mem (p_name p) seen) [(59%nat, i)] ++ param_errs i p ++ params_errs (S i) (p_name p :: seen) r
  end.

(* --- trial template --- *)

Definition meta_keys : list string := ["Name"; "Namespace"; "Kind"; "APIVersion"; "Annotations"; "Labels"].

(* validator.isMetaKey *)
Definition is_meta_key (p : tparam) : bool :=
  match tp_sub p with
  | None => false
  | Some k => str_mem k meta_keys || match tp_idx p with Some (k1, _) => str_mem k1 meta_keys | None => false end
  end.

Definition placeholder (name : string) : string := ("${trialParameters." ++ name ++ "}")%string.

(* generator.GetTrialTemplate *)
Definition get_trial_template (en : env) (t : template) : outcome string :=
  match t_spec t with
  | Some s => match ts_str s with Some str => Ok str | None => Err 1%nat end
  | None =>
      match t_cm t with
      | None => Crash 6%nat
      | Some c =>
          match lookup_first pair_eqb (cm_ns c, cm_name c) (cms en) with
          | None => Err 2%nat
          | Some data => match lookup_first String.eqb (cm_path c) data with Some s => Ok s | None => Err 3%nat end
          end
      end
  end.

Definition tp_malformed (p : tparam) : bool :=
  is_empty (tp_name p) || is_empty (tp_ref p) || str_contains "{" (tp_name p) || str_contains "}" (tp_name p).

(* the loop over trialParameters; the second component is the substituted text, None after the early return *)
Fixpoint tp_loop (pnames : list string) (i : nat) (ps : list tparam) (names refs : list string) (tpl : string)
  : list err * option string :=
  match ps with
  | [] => ([], Some tpl)
  | p :: r =>
      if tp_malformed p then let '(es, t) := tp_loop pnames (S i) r names refs tpl in ((34%nat, i) :: es, t)
      else if str_mem (tp_name p) names then let '(es, t) := tp_loop pnames (S i) r names refs tpl in ((35%nat, i) :: es, t)
      else if str_mem (tp_ref p) refs then let '(es, t) := tp_loop pnames (S i) r names refs tpl in ((36%nat, i) :: es, t)
      else
        let e37 := when (match pnames with [] => false | _ => true end && negb (is_meta_key p) && negb (str_mem (tp_ref p) pnames))
                        [(37%nat, i)] in
        if negb (str_contains (placeholder (tp_name p)) tpl) then ((e37 ++ [(38%nat, i)])%list, None)
        else let '(es, t) := tp_loop pnames (S i) r (tp_name p :: names) (tp_ref p :: refs)
                                     (replace_all tpl (placeholder (tp_name p)) "test-value") in
             ((e37 ++ es)%list, t)
  end.

Definition after_loop (f : tplfacts) (final : string) : list err :=
  if negb (String.eqb final (tf_final f)) then E 900
  else when (tf_unreplaced f) (E 39) ++
       match tf_conv f with
       | None => E 40
       | Some c => when (cv_named c) (E 41) ++ when (cv_nogvk c) (E 42) ++ when (cv_joberr c) (E 43)
       end.

Definition template_errs (en : env) (e : experiment) : outcome (list err) :=
  match e_template e with
  | None => Ok (E 26)
  | Some t =>
      let e1 := when (t_primary_empty t) (E 27) ++ when (t_succ_empty t || t_fail_empty t) (E 28) in
      match t_params t with
      | None => Ok (e1 ++ E 29)
      | Some ps =>
          match t_spec t, t_cm t with
          | None, None => Ok (e1 ++ E 30)
          | Some _, Some _ => Ok (e1 ++ E 31)
          | _, _ =>
              if match t_cm t with Some c => is_empty (cm_name c) || is_empty (cm_ns c) || is_empty (cm_path c) | None => false end
              then Ok (e1 ++ E 32)
              else match get_trial_template en t with
                   | Crash s => Crash s
                   | Err _ => Ok (e1 ++ E 33)
                   | Ok tpl =>
                       match tp_loop (map p_name (e_params e)) 0 ps [] [] tpl with
                       | (es, None) => Ok (e1 ++ es)
                       | (es, Some final) => Ok (e1 ++ es ++ after_loop (facts en) final)
                       end
                   end
          end
      end
  end.

(* --- every search-space parameter is consumed by the template (validateParametersReferences, repair of unreferenced-parameter) --- *)

(* a trial parameter consumes an assignment iff its reference does not match \$\{trialSpec\.(.+?)\} (generator.applyParameters) *)
Definition non_meta (p : tparam) : bool := match tp_sub p with None => true | Some _ => false end.

Definition consumed_refs (t : template) : list string :=
  map tp_ref (filter non_meta (match t_params t with Some ps => ps | None => [] end)).

Fixpoint unref_errs (i : nat) (refs : list string) (ps : list param) : list err :=
  match ps with
  | [] => []
  | p :: r => when (negb (str_mem (p_name p) refs)) [(60%nat, i)] ++ unref_errs (S i) refs r
  end.

Definition referenced_errs (e : experiment) : list err :=
  match e_template e with
  | None => []
  | Some t => unref_errs 0 (consumed_refs t) (e_params e)
  end.

(* the part of ValidateExperiment between validateTrialTemplate and validateMetricsCollector *)
Definition pn_errs (e : experiment) : list err :=
  when (match e_params e with [] => negb (e_nas e) | _ => false end) (E 44) ++
  when (match e_params e with [] => false | _ => e_nas e end) (E 45) ++
  params_errs 0 [] (e_params e) ++ referenced_errs e.

(* --- metrics collector --- *)

Definition auto_inject (k : ckind) : bool :=
  match k with CStdOut | CTfEvent | CFile | CPrometheus => true | _ => false end.

Fixpoint filter_errs (i : nat) (l : list filterfmt) : list err :=
  match l with
  | [] => []
  | f :: r => (if negb (ff_compiles f) then [(57%nat, 0%nat)] else when (negb (ff_two f)) [(58%nat, 0%nat)]) ++ filter_errs (S i) r
  end.

Definition source_filter_errs (so : option source) : list err :=
  match so with
  | Some s => match s_filter s with Some l => filter_errs 0 l | None => [] end
  | None => []
  end.

Definition mc_errs (en : env) (e : experiment) : outcome (list err) :=
  match e_mc e with
  | None => Crash 1%nat
  | Some mc =>
      match mc_collector mc with
      | None => Crash 2%nat
      | Some col =>
          let k := c_kind col in
          let e0 := when (auto_inject k && negb (config_ok ckind_eqb k (option_map c_mc (cfg en)))) (E 46) in
          let tail := source_filter_errs (mc_source mc) in
          match k with
          | CPush | CStdOut => Ok e0
          | CFile =>
              let bad := match mc_source mc with
                         | Some s => match s_fs s with
                                     | Some f => negb (match fp_kind f with FKFile => true | _ => false end)
                                                 || negb (match fp_path f with PAbs => true | _ => false end)
                                     | None => true end
                         | None => true end in
              match mc_source mc with
              | None => Crash 3%nat
              | Some s =>
                  match s_fs s with
                  | None => Crash 3%nat
                  | Some f =>
                      Ok (e0 ++ when bad (E 47)
                             ++ when (match fp_format f with FFText | FFJson => false | _ => true end) (E 48)
                             ++ when (match fp_format f, s_filter s with FFJson, Some _ => true | _, _ => false end) (E 49)
                             ++ tail)
                  end
              end
          | CTfEvent =>
              let bad := match mc_source mc with
                         | Some s => match s_fs s with
                                     | Some f => negb (match fp_kind f with FKDir => true | _ => false end)
                                                 || negb (match fp_path f with PAbs => true | _ => false end)
                                     | None => true end
                         | None => true end in
              match mc_source mc with
              | None => Crash 4%nat
              | Some s =>
                  match s_fs s with
                  | None => Crash 4%nat
                  | Some f => Ok (e0 ++ when bad (E 50) ++ when (match fp_format f with FFEmpty => false | _ => true end) (E 51) ++ tail)
                  end
              end
          | CPrometheus =>
              match mc_source mc with
              | None => Crash 5%nat
              | Some s =>
                  match s_http s with
                  | None => Crash 5%nat
                  | Some h =>
                      Ok (e0 ++ when (match hg_port h with Some p => p <=? 0 | None => true end) (E 52)
                             ++ when (match hg_path h with HSlash => false | _ => true end) (E 53) ++ tail)
                  end
              end
          | CCustom =>
              Ok (e0 ++ when (negb (c_custom col)) (E 54)
                     ++ when (match mc_source mc with
                              | Some s => match s_fs s with
                                          | Some f => negb (match fp_path f with PAbs => true | _ => false end)
                                                      || match fp_kind f with FKDir | FKFile => false | _ => true end
                                          | None => false end
                              | None => false end) (E 55)
                     ++ tail)
          | COther => Ok (e0 ++ E 56 ++ tail)
          end
      end
  end.

(* ValidateExperiment; [mid] = the errors of the update branch (empty on creation), see Model/UpdateRule.v *)
Definition validate_gen (en : env) (e : experiment) (mid : list err) : outcome (list err) :=
  let pre := budget_errs e ++ mid in
  match objective_errs (e_objective e) with
  | (_ :: _) as oe => Ok (pre ++ oe)
  | [] =>
      let a := algorithm_errs (cfg en) (e_algorithm e) ++ early_errs (cfg en) (e_early e) ++ resume_errs (e_resume e) in
      match template_errs en e with
      | Crash s => Crash s
      | Err c => Err c
      | Ok te =>
          match mc_errs en e with
          | Crash s => Crash s
          | Err c => Err c
          | Ok me => Ok (pre ++ a ++ te ++ pn_errs e ++ me)
          end
      end
  end.

Definition validate (en : env) (e : experiment) : outcome (list err) := validate_gen en e [].

(* admitted by the two webhooks: defaulting, then no validation error *)
Definition admitted (en : env) (e : experiment) : Prop := validate en (set_default e) = Ok [].

(* ------------------------------------------------------------------ what the controllers dereference *)
(* experiment_controller.go (deref of ParallelTrialCount), status_util.go / suggestionclient.go (Objective.), util/suggestion.go and
   composer.go (Algorithm.), generator.go and experiment_controller_util.go (TrialTemplate., TrialSource.ConfigMap. when TrialSpec
   is nil, deref of MetricsCollectorSpec), trial_controller.go and pod/inject_webhook.go (MetricsCollector.Collector.Kind),
   pod/utils.go getMountPath (Source.FileSystemPath.Path for File and TensorFlowEvent collectors),
   pod/inject_webhook.go (Collector.CustomCollector for the Custom kind). *)
Definition present {A} (o : option A) : bool := match o with Some _ => true | None => false end.

Definition derefs_mc (e : experiment) : bool :=
  match e_mc e with
  | Some mc =>
      match mc_collector mc with
      | Some col =>
          match c_kind col with
          | CFile | CTfEvent => match mc_source mc with Some s => present (s_fs s) | None => false end
          | CCustom => c_custom col     (* pod/inject_webhook.go: the custom collector container is dereferenced when injected *)
          | _ => true
          end
      | None => false
      end
  | None => false
  end.

Definition derefs_ok (e : experiment) : bool :=
  present (e_par e) && present (e_objective e) && present (e_algorithm e) &&
  match e_template e with
  | Some t => present (t_params t) && (present (t_spec t) || present (t_cm t))
  | None => false
  end &&
  derefs_mc e.

Definition budget_ok (e : experiment) : bool :=
  match e_par e with
  | Some p =>
      (1 <=? p) &&
      match e_max e with Some m => (1 <=? m) && (p <=? m) | None => true end &&
      match e_mf e with Some f => (0 <=? f) && match e_max e with Some m => f <=? m | None => true end | None => true end
  | None => false
  end.

(* ------------------------------------------------------------------ the generator: can a trial be built? *)

(* generator.applyParameters. Err 1: GetTrialTemplate; 2: raw template does not convert (configMap source);
   3: a non-meta reference has no assignment; 4: illegal reference of trial metadata (unknown key / label / annotation);
   5: number of assignments <> number of non-meta trial parameters *)
Inductive pvalue := VAssign (v : string) | VName | VNamespace | VKind | VApiVersion | VLabel (k : string) | VAnnotation (k : string).

Fixpoint assoc (k : string) (l : list (string * string)) : option string :=
  match l with
  | [] => None
  | (k', v) :: r => match assoc k r with Some w => Some w | None => if String.eqb k k' then Some v else None end
  end.   (* assignmentsMap: the LAST assignment of a name wins *)

(* metaRefKey / metaRefIndex are declared inside the Go loop: a reference without [index] looks up the empty index *)
Definition resolve (f : tplfacts) (asg : list (string * string)) (p : tparam) : outcome pvalue :=
  match tp_sub p with
  | None => match assoc (tp_ref p) asg with Some v => Ok (VAssign v) | None => Err 3%nat end
  | Some k0 =>
      let '(k, idx) := match tp_idx p with Some (k1, i) => (k1, i) | None => (k0, "") end in
      if String.eqb k "Name" then Ok VName
      else if String.eqb k "Namespace" then Ok VNamespace
      else if String.eqb k "Kind" then Ok VKind
      else if String.eqb k "APIVersion" then Ok VApiVersion
      else if String.eqb k "Annotations" then (if str_mem idx (tf_annotations f) then Ok (VAnnotation idx) else Err 4%nat)
      else if String.eqb k "Labels" then (if str_mem idx (tf_labels f) then Ok (VLabel idx) else Err 4%nat)
      else Err 4%nat
  end.

(* the loop: placeholder name -> value, and the count of non-meta parameters *)
Fixpoint resolve_all (f : tplfacts) (asg : list (string * string)) (ps : list tparam)
  : outcome (list (string * pvalue) * nat) :=
  match ps with
  | [] => Ok ([], 0%nat)
  | p :: r =>
      match resolve f asg p with
      | Ok v =>
          match resolve_all f asg r with
          | Ok (m, n) => Ok ((tp_name p, v) :: m, match v with VAssign _ => S n | _ => n end)
          | Err c => Err c
          | Crash s => Crash s
          end
      | Err c => Err c
      | Crash s => Crash s
      end
  end.

Definition apply_parameters (en : env) (e : experiment) (asg : list (string * string)) : outcome (list (string * pvalue)) :=
  match e_template e with
  | None => Crash 7%nat
  | Some t =>
      match get_trial_template en t with
      | Crash s => Crash s
      | Err _ => Err 1%nat
      | Ok _ =>
          if match t_spec t with None => negb (tf_raw_conv (facts en)) | Some _ => false end then Err 2%nat
          else match resolve_all (facts en) asg (match t_params t with Some ps => ps | None => [] end) with
               | Ok (m, n) => if (length asg =? n)%nat then Ok m else Err 5%nat
               | Err c => Err c
               | Crash s => Crash s
               end
      end
  end.

(* ------------------------------------------------------------------ derived names *)
(* util.GetSuggestionServiceName / DeploymentName (the Suggestion is named after the Experiment); suggestionclient: trial names *)
Definition suggestion_resource_name (name algo : string) : string := (name ++ "-" ++ algo)%string.
Definition trial_name (name suffix : string) : string := (name ++ "-" ++ suffix)%string.
