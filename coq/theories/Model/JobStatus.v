(* trialutil.GetDeployedJobStatus (pkg/controller.v1beta1/trial/util/job_util.go): the GJSON evaluation of
   spec.failureCondition / spec.successCondition on the job document is done by the harness with the same library;
   [fail] / [succ] say whether the expression yields an object or a non-empty array. *)
From KV Require Import Base.Prelude.

Inductive jverdict := JVFailed | JVSucceeded | JVRunning | JVNone.

Definition job_status (fail succ trial_running job_named : bool) : jverdict :=
  if fail then JVFailed
  else if succ then JVSucceeded
  else if negb trial_running && job_named then JVRunning
  else JVNone.
