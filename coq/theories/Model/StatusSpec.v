(* Specification vocabulary for the properties about status_util.go (C05, C03): the notions the property
   statements use, written independently of the loop in Model/StatusUtil.v.  No proofs here.
   Shared with the model are only the reading of a trial's conditions (has_cond: first condition of a type, status
   True) and [objective_value] (the transcription of getObjectiveMetricValue: which text of the observation is
   "the objective value per the metric strategy"); classification precedence, counting, extremum, goal and verdict
   rules are restated here and used by the theorems (Props/C05.v, Props/C03.v) and by the monitors (Corr/). *)
From KV Require Import Base.Prelude Base.Cond Model.StatusUtil.
Open Scope Z_scope.

Definition all_classes : list tclass :=
  [KKilled; KFailed; KSucceeded; KEarlyStopped; KRunning; KMetricsUnavailable; KPending].

(* the precedence killed > failed > succeeded > early-stopped > running > metrics-unavailable > pending *)
Definition in_class (k : tclass) (t : trial) : bool :=
  let K := is_killed t in let F := is_failed t in let S := is_succeeded t in let E := is_early_stopped t in
  let R := is_running t in let M := is_metrics_unavailable t in
  match k with
  | KKilled => K
  | KFailed => negb K && F
  | KSucceeded => negb K && negb F && S
  | KEarlyStopped => negb K && negb F && negb S && E
  | KRunning => negb K && negb F && negb S && negb E && R
  | KMetricsUnavailable => negb K && negb F && negb S && negb E && negb R && M
  | KPending => negb K && negb F && negb S && negb E && negb R && negb M
  end.

Definition list_of (k : tclass) (st : estatus) : list nat :=
  match k with
  | KKilled => e_killed_list st | KFailed => e_failed_list st | KSucceeded => e_succeeded_list st
  | KEarlyStopped => e_early_stopped_list st | KRunning => e_running_list st
  | KMetricsUnavailable => e_metrics_unavailable_list st | KPending => e_pending_list st
  end.

Definition counter_of (k : tclass) (st : estatus) : Z :=
  match k with
  | KKilled => e_trials_killed st | KFailed => e_trials_failed st | KSucceeded => e_trials_succeeded st
  | KEarlyStopped => e_trials_early_stopped st | KRunning => e_trials_running st
  | KMetricsUnavailable => e_trials_metrics_unavailable st | KPending => e_trials_pending st
  end.

(* the seven lists one after the other *)
Definition all_lists (st : estatus) : list nat := flat_map (fun k => list_of k st) all_classes.

Definition count_in_class (k : tclass) (ts : list trial) : Z := zlen (filter (in_class k) ts).

(* a trial has an objective value / a numeric one *)
Definition available (t : trial) : bool := negb (is_unavailable (objective_value t)).
Definition numeric_value (t : trial) : option Z := if available t then mv_num (objective_value t) else None.

(* every objective value is "unavailable" or parses as a number: the domain the properties quantify over *)
Definition numeric_domain (ts : list trial) : bool :=
  forallb (fun t => negb (available t) || match numeric_value t with Some _ => true | None => false end) ts.

Definition numeric_values (ts : list trial) : list Z :=
  flat_map (fun t => match numeric_value t with Some z => [z] | None => [] end) ts.

(* v is at least as good as w *)
Definition as_good (ty : objtype) (v w : Z) : bool :=
  match ty with Minimize => v <=? w | Maximize => w <=? v | OTUnknown => false end.

(* v meets the goal *)
Definition meets (spec : espec) (v : Z) : bool :=
  match obj_goal spec with
  | Some g => as_good (obj_type spec) v g
  | None => false
  end.

(* ------------------------------------------------------------------ verdict rules (C03) *)

(* some trial's objective value meets the goal *)
Definition goal_met (spec : espec) (ts : list trial) : bool := existsb (meets spec) (numeric_values ts).

(* finished = succeeded + failed + killed + early-stopped + metrics-unavailable; failed = failed + metrics-unavailable *)
Definition finished_count (ts : list trial) : Z :=
  count_in_class KSucceeded ts + count_in_class KFailed ts + count_in_class KKilled ts +
  count_in_class KEarlyStopped ts + count_in_class KMetricsUnavailable ts.
Definition failed_count (ts : list trial) : Z := count_in_class KFailed ts + count_in_class KMetricsUnavailable ts.

(* "reach maxFailedTrialCount" is read as  failed + metrics-unavailable >= max(maxFailedTrialCount, 1)
   (DESIGN.md, C03: with 0 the code needs at least one failure). *)
Definition fail_rule (spec : espec) (nfailed : Z) : bool :=
  match max_failed spec with Some f => Z.max f 1 <=? nfailed | None => false end.
Definition max_rule (spec : espec) (nfinished : Z) : bool :=
  match max_trials spec with Some m => m <=? nfinished | None => false end.

(* reason of the first condition of type [t] when its status is True *)
Definition reason_of (cs : conds) (t : nat) : option nat :=
  match get_cond cs t with
  | Some c => if cstatus_eqb (cstat c) CTrue then Some (creason c) else None
  | None => None
  end.
