(* C20 — UI backend authorisation.  Executable model only (no proofs).

   A handler of pkg/ui/v1beta1 is abstracted to a *skeleton*: the sequence of request validations,
   authorisation checks (IsAuthorized = SubjectAccessReview create, authzn.go), error guards, API accesses
   (k.katibClient.*, the raw controller-runtime client, the clientset, the DB-manager client) and the final
   w.Write, in source order, with loops and data-dependent branches kept as structure.  The skeletons of the
   handlers of the working tree are produced by harness/cmd/xlate-ui (coq/theories/Gen/Routes.v); this file
   gives the language, its semantics [run] and the static checker [check].

   What is NOT modelled (supplied by the harness / universally quantified in the theorems):
   - the answers of the API server and of the DB manager to each access ([apires], consumed in call order);
   - data-dependent branch and loop decisions ([choices], consumed in order; the correspondence searches them);
   - encoding/json, w.Write, config.GetConfig: the names of the library calls that fail on a request are
     part of the request ([r_libfail]);
   - strings.Replace(header, USER_PREFIX, "", 1): the resulting user is part of the request ([r_user]).
   API-server assumption built into [run]: a namespaced read in namespace n <> "" returns objects of n only
   (the recorded namespaces of a cluster-wide read, n = "", are used as they are). *)
From KV Require Import Base.Prelude.
Open Scope string_scope.
Open Scope list_scope.

(* ------------------------------------------------------------------ syntax *)

Inductive nsexpr :=
| NsParam (p : string)        (* r.URL.Query()[p][0] *)
| NsBody (k : string)         (* string field of the JSON body, dotted path *)
| NsConst (c : string)        (* constant; "" = all namespaces *)
| NsVar (v : nat)             (* loop variable of ForEachName *)
| NsUnknown (what : string).  (* the translator could not resolve the expression *)

Inductive kind := KExperiment | KTrial | KSuggestion | KConfigMap | KNamespace | KPod | KPodLog | KObsLog | KOther (s : string).
Inductive op := OGet | OList | OCreate | OUpdate | ODelete.

(* what follows an IsAuthorized call *)
Inductive aguard :=
| GStd               (* if user == "" && err != nil {401; return} else if err != nil {403; return} *)
| GCode (c : nat)    (* if err != nil { ... http.Error(c); return } (possibly through helper returns) *)
| GNone.             (* result not checked *)

Inductive instr :=
| RequireParam (p : string) (code : nat)     (* v, ok := r.URL.Query()[p]; if !ok {code} *)
| IndexParam (p : string)                    (* r.URL.Query()[p][0] without check: panics when absent *)
| RequireKey (k : string) (code : nat)       (* v, ok := data[k]; if !ok {code} *)
| AssertStr (k : string)                     (* data[k].(string): panics when absent or not a string *)
| LibGuard (what : string) (code : nat)      (* error guard after an unmodelled library call *)
| Auth (verb res : string) (ns : nsexpr) (g : aguard)
| Access (o : op) (k : kind) (ns : nsexpr) (dst : nat)
| Guard (code : nat)                         (* if err != nil {code; return} after an access *)
| GuardUnlessNotFound (code : nat)           (* if err != nil && !IsNotFound(err) {code; return} *)
| IfErr (body : list instr)                  (* if err != nil { body } *)
| IfOk (body : list instr)                   (* rest of a helper after `if err != nil { return ..., err }` whose caller tests err again *)
| LibErr (what : string)                     (* x, err := <library call>: err is set iff the call fails on this request *)
| Fail (code : nat)                          (* unconditional failure answer (reached through data-dependent branches) *)
| DefaultNames (dst : nat) (names : list string)  (* if err != nil { names := const; err = nil } *)
| ForEachName (v : nat) (src : nat) (body : list instr)   (* for _, ns := range names[src] *)
| ForEachObj (v : nat) (src : nat) (body : list instr)    (* for _, o := range <objects of the latest read src>; v = namespace of o *)
| IfNsEq (e : nsexpr) (c : string) (thn els : list instr)
| Alt (a b : list instr)                     (* data-dependent branch *)
| Repeat (body : list instr)                 (* wait loop: body runs 1 + k times *)
| Respond (srcs : list nat)                  (* w.Write(json of data derived from the reads srcs) *)
| Unknown (what : string).

Definition handler := list instr.

(* ------------------------------------------------------------------ requests, oracle, traces *)

Record req := Req {
  r_header : string;                    (* value of the user-id header, "" = absent *)
  r_user : string;                      (* strings.Replace(header, USER_PREFIX, "", 1) *)
  r_params : list (string * string);    (* query parameters (first value) *)
  r_keys : list string;                 (* top-level keys of the JSON body *)
  r_body : list (string * string);      (* string-valued fields of the body, dotted paths *)
  r_libfail : list string }.            (* library calls that fail on this request *)

Definition rbac := string -> string -> string -> string -> bool.   (* user verb resource namespace *)

Inductive apires := AOk (objs : list string) | ANotFound | AErr.

Inductive event :=
| EAuth (u v r n : string) (allowed : bool)     (* a SubjectAccessReview was created and answered *)
| EAcc (o : op) (k : kind) (n : string).        (* an API / DB access was attempted *)

Record trace := Trace { t_evs : list event; t_status : nat; t_body : list string }.
(* t_status 0 = the handler panicked; t_body = namespaces of the objects in a 2xx body *)

(* ------------------------------------------------------------------ helpers *)

Definition smem (x : string) (l : list string) : bool := existsb (String.eqb x) l.

Fixpoint sassoc (k : string) (l : list (string * string)) : option string :=
  match l with [] => None | (a, b) :: r => if String.eqb a k then Some b else sassoc k r end.

Fixpoint nassoc {A} (k : nat) (l : list (nat * A)) : option A :=
  match l with [] => None | (a, b) :: r => if Nat.eqb a k then Some b else nassoc k r end.

Definition nget (k : nat) (l : list (nat * list string)) : list string :=
  match nassoc k l with Some x => x | None => [] end.

Definition nset {A} (k : nat) (x : A) (l : list (nat * A)) : list (nat * A) :=
  (k, x) :: filter (fun p => negb (Nat.eqb (fst p) k)) l.

Definition namespaced (k : kind) : bool := match k with KNamespace => false | _ => true end.
Definition is_read (o : op) : bool := match o with OGet | OList => true | _ => false end.

Definition eff_user (rq : req) : string := if String.eqb (r_header rq) "" then "" else r_user rq.

(* ------------------------------------------------------------------ semantics *)

Record st := St {
  s_evs : list event;                    (* reversed *)
  s_objs : list (nat * list string);     (* namespaces of the objects returned by namespaced reads, per dst, accumulated *)
  s_last : list (nat * list string);     (* ... of the latest execution of the read dst *)
  s_names : list (nat * list string);    (* names returned by cluster-scoped lists, per dst *)
  s_env : list (nat * string);           (* loop variables *)
  s_err : bool; s_nf : bool;             (* err != nil, IsNotFound(err) *)
  s_apis : list apires; s_ch : list nat;
  s_body : list string }.

Inductive res := Go (s : st) | Stop (code : nat) (s : st).

Definition eval (rq : req) (env : list (nat * string)) (e : nsexpr) : string :=
  match e with
  | NsParam p => match sassoc p (r_params rq) with Some v => v | None => "" end
  | NsBody k => match sassoc k (r_body rq) with Some v => v | None => "" end
  | NsConst c => c
  | NsVar v => match nassoc v env with Some x => x | None => "" end
  | NsUnknown _ => ""
  end.

Definition pop_api (s : st) : apires * st :=
  match s_apis s with
  | [] => (AErr, s)
  | a :: r => (a, St (s_evs s) (s_objs s) (s_last s) (s_names s) (s_env s) (s_err s) (s_nf s) r (s_ch s) (s_body s))
  end.

Definition pop_ch (s : st) : nat * st :=
  match s_ch s with
  | [] => (0, s)
  | a :: r => (a, St (s_evs s) (s_objs s) (s_last s) (s_names s) (s_env s) (s_err s) (s_nf s) (s_apis s) r (s_body s))
  end.

Definition set_err (s : st) (e nf : bool) : st :=
  St (s_evs s) (s_objs s) (s_last s) (s_names s) (s_env s) e nf (s_apis s) (s_ch s) (s_body s).
Definition push_ev (s : st) (e : event) : st :=
  St (e :: s_evs s) (s_objs s) (s_last s) (s_names s) (s_env s) (s_err s) (s_nf s) (s_apis s) (s_ch s) (s_body s).
Definition set_objs (s : st) (o : list (nat * list string)) : st :=
  St (s_evs s) o (s_last s) (s_names s) (s_env s) (s_err s) (s_nf s) (s_apis s) (s_ch s) (s_body s).
Definition set_last (s : st) (o : list (nat * list string)) : st :=
  St (s_evs s) (s_objs s) o (s_names s) (s_env s) (s_err s) (s_nf s) (s_apis s) (s_ch s) (s_body s).
Definition set_names (s : st) (o : list (nat * list string)) : st :=
  St (s_evs s) (s_objs s) (s_last s) o (s_env s) (s_err s) (s_nf s) (s_apis s) (s_ch s) (s_body s).
Definition set_env (s : st) (o : list (nat * string)) : st :=
  St (s_evs s) (s_objs s) (s_last s) (s_names s) o (s_err s) (s_nf s) (s_apis s) (s_ch s) (s_body s).
Definition set_body (s : st) (b : list string) : st :=
  St (s_evs s) (s_objs s) (s_last s) (s_names s) (s_env s) (s_err s) (s_nf s) (s_apis s) (s_ch s) b.

(* destinations written by the accesses of a body (cleared at the start of each Repeat iteration:
   the wait loop assigns, it does not accumulate) *)
Fixpoint dsts (i : instr) : list nat :=
  let fix go (l : list instr) : list nat := match l with [] => [] | a :: r => dsts a ++ go r end in
  match i with
  | Access _ _ _ d => [d]
  | IfErr b | IfOk b | ForEachName _ _ b | ForEachObj _ _ b | Repeat b => go b
  | IfNsEq _ _ a b | Alt a b => go a ++ go b
  | _ => []
  end.
Definition dsts_l (l : list instr) : list nat := flat_map dsts l.

Definition clear_objs (ds : list nat) (o : list (nat * list string)) : list (nat * list string) :=
  filter (fun p => negb (existsb (Nat.eqb (fst p)) ds)) o.

(* iterate f over a list / a count, stopping at the first Stop *)
Fixpoint iter_list {A} (f : A -> st -> res) (l : list A) (s : st) : res :=
  match l with
  | [] => Go s
  | a :: r => match f a s with Go s' => iter_list f r s' | Stop c s' => Stop c s' end
  end.

Fixpoint iter_n (f : st -> res) (n : nat) (s : st) : res :=
  match n with
  | O => Go s
  | S m => match f s with Go s' => iter_n f m s' | Stop c s' => Stop c s' end
  end.

Definition deny_code (rq : req) : nat := if String.eqb (eff_user rq) "" then 401 else 403.

Definition do_auth (rq : req) (rb : rbac) (verb rs : string) (e : nsexpr) (g : aguard) (s : st) : res :=
  let n := eval rq (s_env s) e in
  if String.eqb (r_header rq) "" then
    (* IsAuthorized returns ("", err) without creating a SubjectAccessReview *)
    match g with
    | GStd => Stop 401 s
    | GCode c => Stop c s
    | GNone => Go (set_err s true false)
    end
  else
    let b := rb (r_user rq) verb rs n in
    let s1 := push_ev s (EAuth (r_user rq) verb rs n b) in
    if b then Go (set_err s1 false false)
    else match g with
         | GStd => Stop (deny_code rq) s1
         | GCode c => Stop c s1
         | GNone => Go (set_err s1 true false)
         end.

Definition do_access (rq : req) (o : op) (k : kind) (e : nsexpr) (d : nat) (s : st) : res :=
  let n := eval rq (s_env s) e in
  let '(a, s0) := pop_api s in
  let s1 := push_ev s0 (EAcc o k n) in
  match a with
  | AOk objs =>
      let s2 := set_err s1 false false in
      if is_read o then
        if namespaced k then
          let got := if String.eqb n "" then objs else map (fun _ => n) objs in
          Go (set_last (set_objs s2 (nset d (nget d (s_objs s2) ++ got) (s_objs s2))) (nset d got (s_last s2)))
        else Go (set_names s2 (nset d objs (s_names s2)))
      else Go s2
  | ANotFound => Go (set_last (set_err s1 true true) (nset d [] (s_last s1)))
  | AErr => Go (set_last (set_err s1 true false) (nset d [] (s_last s1)))
  end.

Section Exec.
Variables (rq : req) (rb : rbac).

Fixpoint exec (i : instr) (s : st) {struct i} : res :=
  let fix execs (l : list instr) (s : st) {struct l} : res :=
    match l with
    | [] => Go s
    | a :: r => match exec a s with Go s' => execs r s' | Stop c s' => Stop c s' end
    end in
  match i with
  | RequireParam p c => if smem p (map fst (r_params rq)) then Go s else Stop c s
  | IndexParam p => if smem p (map fst (r_params rq)) then Go s else Stop 0 s
  | RequireKey k c => if smem k (r_keys rq) then Go s else Stop c s
  | AssertStr k => if smem k (map fst (r_body rq)) then Go s else Stop 0 s
  | LibGuard w c => if smem w (r_libfail rq) then Stop c s else Go s
  | Auth v r e g => do_auth rq rb v r e g s
  | Access o k e d => do_access rq o k e d s
  | Guard c => if s_err s then Stop c s else Go s
  | GuardUnlessNotFound c => if s_err s && negb (s_nf s) then Stop c s else Go (set_err s false false)
  | IfErr b => if s_err s then execs b s else Go s
  | IfOk b => if s_err s then Go s else execs b s
  | LibErr w => Go (set_err s (smem w (r_libfail rq)) false)
  | Fail c => Stop c s
  | DefaultNames d l => if s_err s then Go (set_err (set_names s (nset d l (s_names s))) false false) else Go s
  | ForEachName v src b =>
      (* the loop variable is scoped to the loop: the environment is restored afterwards *)
      let env0 := s_env s in
      match iter_list (fun x s' => execs b (set_env s' (nset v x env0))) (nget src (s_names s)) s with
      | Go s' => Go (set_env s' env0)
      | Stop c s' => Stop c s'
      end
  | ForEachObj v src b =>
      let env0 := s_env s in
      match iter_list (fun x s' => execs b (set_env s' (nset v x env0))) (nget src (s_last s)) s with
      | Go s' => Go (set_env s' env0)
      | Stop c s' => Stop c s'
      end
  | IfNsEq e c a b => if String.eqb (eval rq (s_env s) e) c then execs a s else execs b s
  | Alt a b => match pop_ch s with (O, s') => execs a s' | (_, s') => execs b s' end
  | Repeat b =>
      let ds := flat_map dsts b in
      match pop_ch s with
      | (k, s') => iter_n (fun s'' => execs b (set_objs s'' (clear_objs ds (s_objs s'')))) (S k) s'
      end
  | Respond srcs => Go (set_body s (s_body s ++ flat_map (fun d => nget d (s_objs s)) srcs))
  | Unknown _ => Stop 999 s
  end.

Definition execs : list instr -> st -> res :=
  fix execs (l : list instr) (s : st) {struct l} : res :=
    match l with
    | [] => Go s
    | a :: r => match exec a s with Go s' => execs r s' | Stop c s' => Stop c s' end
    end.

End Exec.

Definition init (apis : list apires) (ch : list nat) : st := St [] [] [] [] [] false false apis ch [].

Definition trace_of (r : res) : trace :=
  match r with
  | Go s => Trace (rev (s_evs s)) 200 (s_body s)
  | Stop c s => Trace (rev (s_evs s)) c []
  end.

Definition run (h : handler) (rq : req) (rb : rbac) (apis : list apires) (ch : list nat) : trace :=
  trace_of (execs rq rb h (init apis ch)).

(* ------------------------------------------------------------------ the property on traces *)

(* An allowing review for namespace a covers namespace n when a = n, or a = "" (all namespaces). *)
Definition covers (a n : string) : bool := String.eqb a n || String.eqb a "".

Definition is2xx (c : nat) : bool := Nat.leb 200 c && Nat.ltb c 300.

(* The verb and the resource a SubjectAccessReview has to name for an access of the given kind. *)
Definition verb_of (o : op) : string :=
  match o with OGet => "get" | OList => "list" | OCreate => "create" | OUpdate => "update" | ODelete => "delete" end.

Definition plural_of (k : kind) : string :=
  match k with
  | KExperiment => "experiments" | KTrial => "trials" | KSuggestion => "suggestions" | KConfigMap => "configmaps"
  | KNamespace => "namespaces" | KPod => "pods" | KPodLog => "pods/log" | KObsLog => "observationlogs" | KOther s => s
  end.

(* [safe]: declarative statement.
   1. every access to namespaced data in namespace n is preceded, in the same request, by an allowing
      SubjectAccessReview covering n;
   2. every object of namespace n in a 2xx body is covered by an allowing review of the request;
   3. a denying review is the last effect of the request and the answer is 401 or 403;
   4. every review is issued for the user named by the request header, which is present;
   5. every WRITE (create / update / delete) of namespaced data of kind k in namespace n is preceded by an allowing
      review covering n whose verb and resource are exactly those of the write (verb_of o, plural_of k).
      Reads only need clause 1: the handlers read related objects after one review (delete_experiment lists the
      experiments after its delete review), which is not demanded to match. *)
Definition allowed_in (evs : list event) (n : string) : Prop :=
  exists u v r a, In (EAuth u v r a true) evs /\ covers a n = true.

Definition safe (rq : req) (t : trace) : Prop :=
  (forall pre o k n post, t_evs t = pre ++ EAcc o k n :: post -> namespaced k = true -> allowed_in pre n) /\
  (is2xx (t_status t) = true -> forall n, In n (t_body t) -> allowed_in (t_evs t) n) /\
  (forall pre u v r n post, t_evs t = pre ++ EAuth u v r n false :: post ->
     post = [] /\ (t_status t = 401 \/ t_status t = 403)) /\
  (forall u v r n b, In (EAuth u v r n b) (t_evs t) -> u = eff_user rq /\ r_header rq <> "") /\
  (forall pre o k n post, t_evs t = pre ++ EAcc o k n :: post -> namespaced k = true -> is_read o = false ->
     exists u a, In (EAuth u (verb_of o) (plural_of k) a true) pre /\ covers a n = true).

(* [safeb]: the boolean monitor (evaluated on implementation traces). *)
Fixpoint scan (user : string) (hdr : bool) (status : nat) (allowed : list string) (l : list event) : option (list string) :=
  match l with
  | [] => Some allowed
  | EAuth u v r n b :: rest =>
      if String.eqb u user && hdr then
        if b then scan user hdr status (n :: allowed) rest
        else match rest with
             | [] => if Nat.eqb status 401 || Nat.eqb status 403 then Some allowed else None
             | _ => None
             end
      else None
  | EAcc o k n :: rest =>
      if negb (namespaced k) || existsb (fun a => covers a n) allowed then scan user hdr status allowed rest else None
  end.

(* clause 5: W collects (verb, resource, namespace) of the allowing reviews seen so far *)
Definition wcovl (W : list (string * string * string)) (v r n : string) : bool :=
  existsb (fun t => match t with (v', r', a) => String.eqb v v' && String.eqb r r' && covers a n end) W.

Fixpoint wscan (W : list (string * string * string)) (l : list event) : bool :=
  match l with
  | [] => true
  | EAuth _ v r n true :: rest => wscan ((v, r, n) :: W) rest
  | EAuth _ _ _ _ false :: rest => wscan W rest
  | EAcc o k n :: rest =>
      (is_read o || negb (namespaced k) || wcovl W (verb_of o) (plural_of k) n) && wscan W rest
  end.

Definition safeb (rq : req) (t : trace) : bool :=
  wscan [] (t_evs t) &&
  match scan (eff_user rq) (negb (String.eqb (r_header rq) "")) (t_status t) [] (t_evs t) with
  | None => false
  | Some allowed =>
      negb (is2xx (t_status t)) || forallb (fun n => existsb (fun a => covers a n) allowed) (t_body t)
  end.

(* ------------------------------------------------------------------ the static checker *)

Definition nsexpr_eqb (a b : nsexpr) : bool :=
  match a, b with
  | NsParam x, NsParam y | NsBody x, NsBody y | NsConst x, NsConst y => String.eqb x y
  | NsVar x, NsVar y => Nat.eqb x y
  | _, _ => false
  end.

(* an entry of the checker's context: a namespace expression known to be authorised, with the verb and resource
   of the (standard-guarded) review that established it; None = an object returned by an authorised read *)
Definition aent := (option (string * string) * nsexpr)%type.

Definition rmem (e : nsexpr) (A : list aent) : bool := existsb (fun a => nsexpr_eqb e (snd a)) A.
Definition wmem (v r : string) (e : nsexpr) (A : list aent) : bool :=
  existsb (fun a => match fst a with
                    | Some (v', r') => String.eqb v v' && String.eqb r r'
                    | None => false
                    end && nsexpr_eqb e (snd a)) A.

Definition drop_var (v : nat) (A : list aent) : list aent :=
  filter (fun a => match snd a with NsVar w => negb (Nat.eqb v w) | _ => true end) A.

(* [chk A h] = Some A' : every access of h is dominated by a standard-guarded authorisation of the same
   namespace expression — for writes: with the verb and resource of the write —, given that the entries of A are
   already authorised; A' holds after h. *)
Fixpoint chk (A : list aent) (i : instr) {struct i} : option (list aent) :=
  let fix chks (A : list aent) (l : list instr) {struct l} : option (list aent) :=
    match l with
    | [] => Some A
    | a :: r => match chk A a with Some A' => chks A' r | None => None end
    end in
  let ok (o : option (list aent)) := match o with Some _ => true | None => false end in
  match i with
  | RequireParam _ _ | IndexParam _ | RequireKey _ _ | AssertStr _ | LibGuard _ _
  | Guard _ | GuardUnlessNotFound _ | DefaultNames _ _ | Respond _ | LibErr _ | Fail _ => Some A
  | Auth v r e g =>
      match g, e with
      | GStd, NsUnknown _ => None
      | GStd, _ => Some ((Some (v, r), e) :: A)
      | _, _ => None
      end
  | Access o k e _ =>
      if negb (namespaced k) || (if is_read o then rmem e A else wmem (verb_of o) (plural_of k) e A)
      then Some A else None
  | IfErr b | IfOk b => if ok (chks A b) then Some A else None
  | ForEachName v _ b => if ok (chks (drop_var v A) b) then Some (drop_var v A) else None
  | ForEachObj v _ b => if ok (chks ((None, NsVar v) :: drop_var v A) b) then Some (drop_var v A) else None
  | IfNsEq _ _ a b => if ok (chks A a) && ok (chks A b) then Some A else None
  | Alt a b => if ok (chks A a) && ok (chks A b) then Some A else None
  | Repeat b => if ok (chks A b) then Some A else None
  | Unknown _ => None
  end.

Definition chks : list aent -> list instr -> option (list aent) :=
  fix chks (A : list aent) (l : list instr) {struct l} : option (list aent) :=
    match l with
    | [] => Some A
    | a :: r => match chk A a with Some A' => chks A' r | None => None end
    end.

Definition check (h : handler) : bool := match chks [] h with Some _ => true | None => false end.

(* ------------------------------------------------------------------ route tables *)

Inductive route :=
| RHandler (path : string) (name : string) (h : handler)   (* http.HandleFunc(path, kuh.<name>) *)
| RStatic (path : string) (what : string).                  (* http.Handle(path, file server) *)

Definition route_path (r : route) : string := match r with RHandler p _ _ | RStatic p _ => p end.
Definition route_name (r : route) : string := match r with RHandler _ n _ => n | RStatic _ w => w end.

(* the routes served by a handler of KatibUIHandler: all of them are subject to the check *)
Definition data_routes (rs : list route) : list (string * handler) :=
  flat_map (fun r => match r with RHandler p _ h => [(p, h)] | RStatic _ _ => [] end) rs.

Fixpoint lookup_route (p : string) (rs : list route) : option handler :=
  match rs with
  | [] => None
  | RHandler q _ h :: r => if String.eqb p q then Some h else lookup_route p r
  | RStatic _ _ :: r => lookup_route p r
  end.
