(* C10 — executable model of the conversion of Experiment / Trial resources into the gRPC messages sent to
   the algorithm and early-stopping services.
     /repo/pkg/controller.v1beta1/suggestion/suggestionclient/suggestionclient.go   (ConvertExperiment, ConvertTrials, the convert helpers)
     /repo/pkg/controller.v1beta1/suggestion/suggestionclient/nas.go                (convertNasConfig ...)
     /repo/pkg/apis/controller/trials/v1beta1/util.go                               (hasCondition, IsObservationAvailable ...)
   Records mirror the API types (pkg/apis/controller/*/v1beta1) and the proto messages (pkg/apis/manager/v1beta1/api.pb.go)
   restricted to the fields the conversion reads / writes.  No proofs in this file.

   Representation choices (stated once):
   - every Go string is a Coq [string] (real bytes; nothing is interned), enum-typed API strings included, so the
     enum switches compare with the real constant values;
   - int32 is [Z]; float64 (objective goal) is the [Z] of its IEEE-754 bit pattern (math.Float64bits): the conversion only
     copies it, so no arithmetic is modelled and NaN / -0 are covered;
   - a nil slice and an empty slice are the same list (they are the same on the wire); a Go map (labels) is the list of its
     entries sorted by key (the harness sorts both the input and the observed output);
   - a *metav1.Time is [option string]: the harness passes the text time.Format renders for it (library result, not modelled);
   - pointers to messages that ConvertExperiment / ConvertTrials always allocate are plain record fields on the proto side
     (the harness reports an unexpected nil as a Go-side violation); optional ones are [option]. *)
From KV Require Import Base.Prelude.
Open Scope string_scope.

(* ------------------------------------------------------------------ API side (custom resources) *)

(* common.AlgorithmSetting, common.EarlyStoppingSetting, common.ParameterAssignment, common.MetricStrategy and the proto
   messages AlgorithmSetting, EarlyStoppingSetting, ParameterAssignment, Metric all are {Name, Value string}. *)
Record kv := KV { k_name : string; k_value : string }.

(* experiments.FeasibleSpace *)
Record feasible := Feasible { fs_max : string; fs_min : string; fs_list : list string; fs_step : string; fs_dist : string }.
(* experiments.ParameterSpec *)
Record param := Param { p_name : string; p_type : string; p_space : feasible }.
(* common.ObjectiveSpec; o_goal = bits of *Goal *)
Record objective := Objective { o_type : string; o_goal : option Z; o_metric : string; o_additional : list string;
                                o_strategies : list kv }.
(* common.AlgorithmSpec and common.EarlyStoppingSpec (same shape) *)
Record algorithm := Algorithm { a_name : string; a_settings : list kv }.
(* experiments.GraphConfig / Operation / NasConfig *)
Record graph := Graph { g_layers : option Z; g_inputs : list Z; g_outputs : list Z }.
Record operation := Operation { op_type : string; op_params : list param }.
Record nas := Nas { n_graph : graph; n_ops : list operation }.
(* experiments.Experiment restricted to metadata.name and the spec fields ConvertExperiment reads *)
Record experiment := Experiment {
  e_name : string; e_params : list param; e_objective : option objective; e_algorithm : option algorithm;
  e_early : option algorithm; e_parallel : option Z; e_max : option Z; e_nas : option nas }.

(* trials.TrialCondition restricted to Type and Status *)
Record condition := Cond { c_type : string; c_status : string }.
(* common.Metric *)
Record metric := Metric { m_name : string; m_min : string; m_max : string; m_latest : string }.
(* trials.Trial restricted to what ConvertTrials reads; t_observation = None for a nil *Observation *)
Record trial := Trial {
  t_name : string; t_objective : option objective; t_assignments : list kv; t_labels : list (string * string);
  t_start : option string; t_completion : option string; t_conditions : list condition;
  t_observation : option (list metric) }.

(* ------------------------------------------------------------------ proto side *)

Inductive pb_ptype := PT_UNKNOWN_TYPE | PT_DOUBLE | PT_INT | PT_DISCRETE | PT_CATEGORICAL.
Inductive pb_dist := D_DISTRIBUTION_UNSPECIFIED | D_UNIFORM | D_LOG_UNIFORM | D_NORMAL | D_LOG_NORMAL.
Inductive pb_otype := O_UNKNOWN | O_MINIMIZE | O_MAXIMIZE.
Inductive pb_cond := C_CREATED | C_RUNNING | C_SUCCEEDED | C_KILLED | C_FAILED | C_METRICSUNAVAILABLE | C_EARLYSTOPPED | C_UNKNOWN.

Record pb_feasible := PbFeasible { pf_max : string; pf_min : string; pf_list : list string; pf_step : string; pf_dist : pb_dist }.
Record pb_param := PbParam { pp_name : string; pp_type : pb_ptype; pp_space : pb_feasible }.
Record pb_objective := PbObjective { po_type : pb_otype; po_goal : Z; po_metric : string; po_additional : list string }.
Record pb_algorithm := PbAlgorithm { pa_name : string; pa_settings : list kv }.
Record pb_graph := PbGraph { pg_layers : Z; pg_inputs : list Z; pg_outputs : list Z }.
Record pb_operation := PbOperation { pop_type : string; pop_params : list pb_param }.
Record pb_nas := PbNas { pn_graph : pb_graph; pn_ops : list pb_operation }.
Record pb_experiment := PbExperiment {
  pe_name : string; pe_params : list pb_param; pe_objective : pb_objective; pe_algorithm : pb_algorithm;
  pe_early : option pb_algorithm; pe_parallel : Z; pe_max : Z; pe_nas : option pb_nas }.
Record pb_trial := PbTrial {
  pt_name : string; pt_objective : pb_objective; pt_assignments : list kv; pt_labels : list (string * string);
  pt_start : string; pt_completion : string; pt_condition : pb_cond; pt_observation : list kv }.

(* ------------------------------------------------------------------ enum switches *)

(* convertParameterType *)
Definition convert_ptype (s : string) : pb_ptype :=
  if s =? "discrete" then PT_DISCRETE
  else if s =? "categorical" then PT_CATEGORICAL
  else if s =? "double" then PT_DOUBLE
  else if s =? "int" then PT_INT
  else PT_UNKNOWN_TYPE.

(* convertDistribution *)
Definition convert_dist (s : string) : pb_dist :=
  if s =? "uniform" then D_UNIFORM
  else if s =? "logUniform" then D_LOG_UNIFORM
  else if s =? "normal" then D_NORMAL
  else if s =? "logNormal" then D_LOG_NORMAL
  else D_DISTRIBUTION_UNSPECIFIED.

(* convertObjectiveType *)
Definition convert_otype (s : string) : pb_otype :=
  if s =? "maximize" then O_MAXIMIZE
  else if s =? "minimize" then O_MINIMIZE
  else O_UNKNOWN.

(* convertTrialConditionType: there is no case for TrialMetricsUnavailable *)
Definition convert_cond (s : string) : pb_cond :=
  if s =? "Created" then C_CREATED
  else if s =? "Running" then C_RUNNING
  else if s =? "Succeeded" then C_SUCCEEDED
  else if s =? "Killed" then C_KILLED
  else if s =? "Failed" then C_FAILED
  else if s =? "EarlyStopped" then C_EARLYSTOPPED
  else C_UNKNOWN.

(* ------------------------------------------------------------------ ConvertExperiment *)

Definition zdefault (o : option Z) : Z := match o with Some z => z | None => 0%Z end.

(* convertFeasibleSpace *)
Definition convert_feasible (f : feasible) : pb_feasible :=
  {| pf_max := fs_max f; pf_min := fs_min f; pf_list := fs_list f; pf_step := fs_step f; pf_dist := convert_dist (fs_dist f) |}.
(* convertParameters (one element) *)
Definition convert_param (p : param) : pb_param :=
  {| pp_name := p_name p; pp_type := convert_ptype (p_type p); pp_space := convert_feasible (p_space p) |}.
(* the ObjectiveSpec literal + "if Goal != nil"; MetricStrategies are not sent *)
Definition convert_objective (o : objective) : pb_objective :=
  {| po_type := convert_otype (o_type o); po_goal := zdefault (o_goal o); po_metric := o_metric o; po_additional := o_additional o |}.
(* convertAlgorithmSettings / convertEarlyStoppingSettings copy {Name, Value} element by element *)
Definition convert_algorithm (a : algorithm) : pb_algorithm := {| pa_name := a_name a; pa_settings := a_settings a |}.
(* nas.go *)
Definition convert_graph (g : graph) : pb_graph :=
  {| pg_layers := zdefault (g_layers g); pg_inputs := g_inputs g; pg_outputs := g_outputs g |}.
Definition convert_operation (o : operation) : pb_operation :=
  {| pop_type := op_type o; pop_params := map convert_param (op_params o) |}.
Definition convert_nas (n : nas) : pb_nas := {| pn_graph := convert_graph (n_graph n); pn_ops := map convert_operation (n_ops n) |}.

(* ConvertExperiment. e.Spec.Algorithm and e.Spec.Objective are dereferenced unconditionally inside the composite literal
   (Algorithm first): a nil pointer panics. Crash sites: 1 = nil Algorithm, 2 = nil Objective. *)
Definition convert_experiment (e : experiment) : outcome pb_experiment :=
  match e_algorithm e with
  | None => Crash 1
  | Some a =>
      match e_objective e with
      | None => Crash 2
      | Some o =>
          Ok {| pe_name := e_name e;
                pe_params := map convert_param (e_params e);
                pe_objective := convert_objective o;
                pe_algorithm := convert_algorithm a;
                pe_early := option_map convert_algorithm (e_early e);
                pe_parallel := zdefault (e_parallel e);
                pe_max := zdefault (e_max e);
                pe_nas := option_map convert_nas (e_nas e) |}
      end
  end.

(* ------------------------------------------------------------------ ConvertTrials *)

Definition unavailable : string := "unavailable".     (* consts.UnavailableMetricValue *)
Definition cond_true : string := "True".              (* v1.ConditionTrue *)

(* trials/v1beta1/util.go getCondition: first condition of that type *)
Definition get_condition (cs : list condition) (ty : string) : option condition := find (fun c => c_type c =? ty) cs.
(* hasCondition *)
Definition has_condition (cs : list condition) (ty : string) : bool :=
  match get_condition cs ty with Some c => c_status c =? cond_true | None => false end.
(* IsObservationAvailable *)
Definition observation_available (t : trial) : bool :=
  match t_objective t with
  | None => false
  | Some o =>
      match t_observation t with
      | None => false
      | Some ms => existsb (fun m => (m_name m =? o_metric o) && negb (m_latest m =? unavailable)) ms
      end
  end.
(* the two "continue" of ConvertTrials *)
Definition skipped (t : trial) : bool :=
  has_condition (t_conditions t) "MetricsUnavailable" ||
  (negb (observation_available t) && has_condition (t_conditions t) "EarlyStopped").

(* strategyMap[name]: the map is filled in list order, so the last entry of a name wins; a missing name reads "" *)
Definition strategy_of (strategies : list kv) (n : string) : string :=
  fold_left (fun acc s => if k_name s =? n then k_value s else acc) strategies "".
(* the switch of convertTrialObservation; no case matches an unknown strategy and [value] stays "" *)
Definition metric_value (strategy : string) (m : metric) : string :=
  if strategy =? "min" then (if m_min m =? unavailable then m_latest m else m_min m)
  else if strategy =? "max" then (if m_max m =? unavailable then m_latest m else m_max m)
  else if strategy =? "latest" then m_latest m
  else "".
(* convertTrialObservation *)
Definition convert_observation (strategies : list kv) (obs : option (list metric)) : list kv :=
  match obs with
  | None => []
  | Some ms => map (fun m => KV (m_name m) (metric_value (strategy_of strategies (m_name m)) m)) ms
  end.
(* convertTrialStatusTime *)
Definition convert_stamp (t : option string) : string := match t with Some s => s | None => "" end.
(* "We send only the latest condition of the Trial!"; with no condition the field keeps the enum's zero value CREATED *)
Definition last_condition (cs : list condition) : pb_cond :=
  match cs with
  | [] => C_CREATED
  | c :: r => convert_cond (c_type (last r c))
  end.

(* body of the loop for a trial that is not skipped; t.Spec.Objective is dereferenced unconditionally (Crash site 4) *)
Definition convert_trial (t : trial) : outcome pb_trial :=
  match t_objective t with
  | None => Crash 4
  | Some o =>
      Ok {| pt_name := t_name t;
            pt_objective := convert_objective o;
            pt_assignments := t_assignments t;
            pt_labels := t_labels t;
            pt_start := convert_stamp (t_start t);
            pt_completion := convert_stamp (t_completion t);
            pt_condition := last_condition (t_conditions t);
            pt_observation := convert_observation (o_strategies o) (t_observation t) |}
  end.

Fixpoint convert_trials (ts : list trial) : outcome (list pb_trial) :=
  match ts with
  | [] => Ok []
  | t :: r =>
      if skipped t then convert_trials r
      else match convert_trial t with
           | Ok p => match convert_trials r with
                     | Ok ps => Ok (p :: ps)
                     | Err c => Err c
                     | Crash s => Crash s
                     end
           | Err c => Err c
           | Crash s => Crash s
           end
  end.

(* ------------------------------------------------------------------ the property's view of a resource, and a left inverse *)

(* Declared values of the API enums that have an image of their own (the remaining declared values are the designated
   "unknown" of each type and TrialMetricsUnavailable, see [enum_unknown_ok] in Model/Settings.v). *)
Definition ptype_declared : list string := ["double"; "int"; "discrete"; "categorical"].
Definition dist_declared : list string := ["uniform"; "logUniform"; "normal"; "logNormal"].
Definition otype_declared : list string := ["minimize"; "maximize"].
Definition cond_declared : list string := ["Created"; "Running"; "Succeeded"; "Killed"; "Failed"; "EarlyStopped"].

Definition mem (s : string) (l : list string) : bool := existsb (String.eqb s) l.

(* what the receiver can know about an enum-typed string: the value itself when it is declared, else the type's unknown *)
Definition canon_ptype (s : string) : string := if mem s ptype_declared then s else "unknown".   (* ParameterTypeUnknown *)
Definition canon_dist (s : string) : string := if mem s dist_declared then s else "unknown".     (* DistributionUnknown *)
Definition canon_otype (s : string) : string := if mem s otype_declared then s else "".          (* ObjectiveTypeUnknown *)
Definition canon_cond (s : string) : string := if mem s cond_declared then s else "".            (* no API constant *)

Definition unconvert_ptype (p : pb_ptype) : string :=
  match p with PT_DOUBLE => "double" | PT_INT => "int" | PT_DISCRETE => "discrete" | PT_CATEGORICAL => "categorical"
          | PT_UNKNOWN_TYPE => "unknown" end.
Definition unconvert_dist (d : pb_dist) : string :=
  match d with D_UNIFORM => "uniform" | D_LOG_UNIFORM => "logUniform" | D_NORMAL => "normal" | D_LOG_NORMAL => "logNormal"
          | D_DISTRIBUTION_UNSPECIFIED => "unknown" end.
Definition unconvert_otype (o : pb_otype) : string :=
  match o with O_MINIMIZE => "minimize" | O_MAXIMIZE => "maximize" | O_UNKNOWN => "" end.
Definition unconvert_cond (c : pb_cond) : string :=
  match c with C_CREATED => "Created" | C_RUNNING => "Running" | C_SUCCEEDED => "Succeeded" | C_KILLED => "Killed"
          | C_FAILED => "Failed" | C_EARLYSTOPPED => "EarlyStopped" | C_METRICSUNAVAILABLE => "MetricsUnavailable"
          | C_UNKNOWN => "" end.

Definition unconvert_feasible (f : pb_feasible) : feasible :=
  {| fs_max := pf_max f; fs_min := pf_min f; fs_list := pf_list f; fs_step := pf_step f; fs_dist := unconvert_dist (pf_dist f) |}.
Definition unconvert_param (p : pb_param) : param :=
  {| p_name := pp_name p; p_type := unconvert_ptype (pp_type p); p_space := unconvert_feasible (pp_space p) |}.
Definition unconvert_objective (o : pb_objective) : objective :=
  {| o_type := unconvert_otype (po_type o); o_goal := Some (po_goal o); o_metric := po_metric o;
     o_additional := po_additional o; o_strategies := [] |}.
Definition unconvert_algorithm (a : pb_algorithm) : algorithm := {| a_name := pa_name a; a_settings := pa_settings a |}.
Definition unconvert_graph (g : pb_graph) : graph :=
  {| g_layers := Some (pg_layers g); g_inputs := pg_inputs g; g_outputs := pg_outputs g |}.
Definition unconvert_operation (o : pb_operation) : operation :=
  {| op_type := pop_type o; op_params := map unconvert_param (pop_params o) |}.
Definition unconvert_nas (n : pb_nas) : nas := {| n_graph := unconvert_graph (pn_graph n); n_ops := map unconvert_operation (pn_ops n) |}.
Definition unconvert_experiment (p : pb_experiment) : experiment :=
  {| e_name := pe_name p; e_params := map unconvert_param (pe_params p);
     e_objective := Some (unconvert_objective (pe_objective p));
     e_algorithm := Some (unconvert_algorithm (pe_algorithm p));
     e_early := option_map unconvert_algorithm (pe_early p);
     e_parallel := Some (pe_parallel p); e_max := Some (pe_max p);
     e_nas := option_map unconvert_nas (pe_nas p) |}.

(* [view_*]: the resource as the property speaks of it. It is the identity except that
   - an enum-typed string outside the declared values reads as the type's unknown ([canon_*]);
   - absent goal / parallelTrialCount / maxTrialCount / numLayers read as 0 (proto3 scalars have no presence);
   - the objective's metricStrategies are dropped (they are not sent; they select the metric values of trials). *)
Definition view_feasible (f : feasible) : feasible :=
  {| fs_max := fs_max f; fs_min := fs_min f; fs_list := fs_list f; fs_step := fs_step f; fs_dist := canon_dist (fs_dist f) |}.
Definition view_param (p : param) : param :=
  {| p_name := p_name p; p_type := canon_ptype (p_type p); p_space := view_feasible (p_space p) |}.
Definition view_objective (o : objective) : objective :=
  {| o_type := canon_otype (o_type o); o_goal := Some (zdefault (o_goal o)); o_metric := o_metric o;
     o_additional := o_additional o; o_strategies := [] |}.
Definition view_graph (g : graph) : graph :=
  {| g_layers := Some (zdefault (g_layers g)); g_inputs := g_inputs g; g_outputs := g_outputs g |}.
Definition view_operation (o : operation) : operation := {| op_type := op_type o; op_params := map view_param (op_params o) |}.
Definition view_nas (n : nas) : nas := {| n_graph := view_graph (n_graph n); n_ops := map view_operation (n_ops n) |}.
Definition view_experiment (e : experiment) : experiment :=
  {| e_name := e_name e; e_params := map view_param (e_params e);
     e_objective := option_map view_objective (e_objective e);
     e_algorithm := e_algorithm e;
     e_early := e_early e;
     e_parallel := Some (zdefault (e_parallel e)); e_max := Some (zdefault (e_max e));
     e_nas := option_map view_nas (e_nas e) |}.

(* Experiments on which [view_experiment] is the identity. *)
Definition wf_param (p : param) : Prop :=
  (In (p_type p) ptype_declared \/ p_type p = "unknown") /\
  (In (fs_dist (p_space p)) dist_declared \/ fs_dist (p_space p) = "unknown").
Definition wf_objective (o : objective) : Prop :=
  (In (o_type o) otype_declared \/ o_type o = "") /\ (exists g, o_goal o = Some g) /\ o_strategies o = [].
Definition wf_nas (n : nas) : Prop :=
  (exists k, g_layers (n_graph n) = Some k) /\ forall o, In o (n_ops n) -> forall p, In p (op_params o) -> wf_param p.
Definition wf_experiment (e : experiment) : Prop :=
  (forall p, In p (e_params e) -> wf_param p) /\
  (exists o, e_objective e = Some o /\ wf_objective o) /\
  (exists a, e_algorithm e = Some a) /\
  (exists k, e_parallel e = Some k) /\ (exists k, e_max e = Some k) /\
  (forall n, e_nas e = Some n -> wf_nas n).

(* What the property says a service learns about one trial. *)
Record trial_image := TrialImage {
  ti_name : string; ti_objective : objective; ti_assignments : list kv; ti_labels : list (string * string);
  ti_start : string; ti_completion : string; ti_condition : string; ti_observation : list kv }.

Definition unconvert_trial (p : pb_trial) : trial_image :=
  {| ti_name := pt_name p; ti_objective := unconvert_objective (pt_objective p); ti_assignments := pt_assignments p;
     ti_labels := pt_labels p; ti_start := pt_start p; ti_completion := pt_completion p;
     ti_condition := unconvert_cond (pt_condition p); ti_observation := pt_observation p |}.

(* the strategy-selected value of one metric, in the words of the property statement *)
Definition selected (strategies : list kv) (m : metric) : string := metric_value (strategy_of strategies (m_name m)) m.

(* [view_trial o t]: name, assignments (in order), labels, stamps ("" when unset), the type of the LAST condition
   ("Created" when there is none: the proto field's zero value), one (name, selected value) per metric in order. *)
Definition view_trial (o : objective) (t : trial) : trial_image :=
  {| ti_name := t_name t; ti_objective := view_objective o; ti_assignments := t_assignments t; ti_labels := t_labels t;
     ti_start := convert_stamp (t_start t); ti_completion := convert_stamp (t_completion t);
     ti_condition := match t_conditions t with [] => "Created" | c :: r => canon_cond (c_type (last r c)) end;
     ti_observation := match t_observation t with None => [] | Some ms => map (fun m => KV (m_name m) (selected (o_strategies o) m)) ms end |}.
