(* Model of pkg/controller.v1beta1/experiment/util/status_util.go together with the condition helpers of
   pkg/apis/controller/trials/v1beta1/util.go and pkg/apis/controller/experiments/v1beta1/util.go.

   Executable definitions only (no proofs); imported by Proofs/StatusUtilP.v, Corr/C05.v, Corr/C03.v and by the
   joint controller model.

   Conventions
   - names (trials, metrics, parameters, parameter values), condition reasons and metric value texts are
     natural numbers interned by the harness; metric text id 0 is the literal "unavailable"
     (consts.UnavailableMetricValue).
   - a metric value is the pair (text, number): [mv_num] is the result of strconv.ParseFloat(text, 64) evaluated by
     the harness, as an exact integer in a fixed dyadic unit (the harness uses 1/8), None when ParseFloat fails.
     The goal of the objective is a number in the same unit.  Comparisons of such numbers in binary64 are exact.
   - counters are Z (Go: int32; overflow is not modelled).
   - time: metav1.Now() is the argument [now]; only Status.CompletionTime is modelled (condition time stamps
     and messages are not: setCondition's no-change test does not look at them).
   - instance.Spec.Objective (experiment) and trial.Spec.Objective are assumed non-nil (the validating webhook
     rejects an experiment without objective; the experiment controller copies it into every trial); a nil
     objective is a nil dereference in updateTrialsSummary / getObjectiveMetricValue and is NOT modelled.
   - ExperimentsCollector (prometheus counters) is not modelled. *)
From KV Require Import Base.Prelude Base.Cond.
Open Scope Z_scope.

(* ------------------------------------------------------------------------------------------------------------ *)
(* Enumerations (the harness uses the same numbering)                                                             *)

(* trials/v1beta1/trial_types.go: TrialConditionType *)
Definition TCreated : nat := 0%nat.
Definition TRunning : nat := 1%nat.
Definition TSucceeded : nat := 2%nat.
Definition TKilled : nat := 3%nat.
Definition TFailed : nat := 4%nat.
Definition TMetricsUnavailable : nat := 5%nat.
Definition TEarlyStopped : nat := 6%nat.

(* experiments/v1beta1/experiment_types.go: ExperimentConditionType *)
Definition ECreated : nat := 0%nat.
Definition ERunning : nat := 1%nat.
Definition ERestarting : nat := 2%nat.
Definition ESucceeded : nat := 3%nat.
Definition EFailed : nat := 4%nat.

(* status_util.go: the Experiment…Reason constants; any other reason text gets an id >= 7 *)
Definition RExperimentCreated : nat := 0%nat.
Definition RExperimentRunning : nat := 1%nat.
Definition RExperimentRestarting : nat := 2%nat.
Definition RGoalReached : nat := 3%nat.
Definition RMaxTrialsReached : nat := 4%nat.
Definition RSuggestionEndReached : nat := 5%nat.
Definition RExperimentFailed : nat := 6%nat.

(* common/v1beta1: ObjectiveType; OTUnknown stands for "" and every other string *)
Inductive objtype := Minimize | Maximize | OTUnknown.

(* common/v1beta1: MetricStrategyType; SOther stands for "" and every string other than min/max/latest *)
Inductive strategy := SMin | SMax | SLatest | SOther.

(* experiments/v1beta1: ResumePolicyType; RPOther stands for "" and every other string *)
Inductive resume := NeverResume | LongRunning | FromVolume | RPOther.

(* ------------------------------------------------------------------------------------------------------------ *)
(* Data                                                                                                           *)

Definition mv_unavailable : nat := 0%nat.

Record mval := { mv_text : nat; mv_num : option Z }.

Definition mval_unavailable : mval := {| mv_text := mv_unavailable; mv_num := None |}.

(* consts.UnavailableMetricValue == text *)
Definition is_unavailable (v : mval) : bool := Nat.eqb (mv_text v) mv_unavailable.

(* common.Metric *)
Record metric := { m_name : nat; m_min : mval; m_max : mval; m_latest : mval }.

(* The part of a Trial that status_util.go and the trial helpers read. *)
Record trial := {
  t_name : nat;
  t_conds : conds;                            (* Status.Conditions *)
  t_objective_metric : nat;                   (* Spec.Objective.ObjectiveMetricName *)
  t_strategies : list (nat * strategy);       (* Spec.Objective.MetricStrategies, in order *)
  t_observation : option (list metric);       (* Status.Observation (nil = None) .Metrics *)
  t_assignments : list (nat * nat)            (* Spec.ParameterAssignments: (name, value) *)
}.

(* The part of the ExperimentSpec that is read. *)
Record espec := {
  obj_type : objtype;                         (* Spec.Objective.Type *)
  obj_goal : option Z;                        (* Spec.Objective.Goal *)
  max_trials : option Z;                      (* Spec.MaxTrialCount *)
  max_failed : option Z;                      (* Spec.MaxFailedTrialCount *)
  resume_policy : resume                      (* Spec.ResumePolicy *)
}.

(* experiments/v1beta1: OptimalTrial *)
Record optimal := {
  best_name : nat;
  best_assignments : list (nat * nat);
  best_observation : list metric
}.

(* ExperimentStatus without StartTime / LastReconcileTime *)
Record estatus := {
  e_conds : conds;
  e_completion : option nat;                  (* CompletionTime *)
  e_optimal : optimal;                        (* CurrentOptimalTrial *)
  e_running_list : list nat;
  e_pending_list : list nat;
  e_failed_list : list nat;
  e_succeeded_list : list nat;
  e_killed_list : list nat;
  e_early_stopped_list : list nat;
  e_metrics_unavailable_list : list nat;
  e_trials : Z;
  e_trials_succeeded : Z;
  e_trials_failed : Z;
  e_trials_killed : Z;
  e_trials_pending : Z;
  e_trials_running : Z;
  e_trials_early_stopped : Z;
  e_trials_metrics_unavailable : Z
}.

Definition with_conds (st : estatus) (cs : conds) : estatus :=
  {| e_conds := cs; e_completion := e_completion st; e_optimal := e_optimal st;
     e_running_list := e_running_list st; e_pending_list := e_pending_list st; e_failed_list := e_failed_list st;
     e_succeeded_list := e_succeeded_list st; e_killed_list := e_killed_list st;
     e_early_stopped_list := e_early_stopped_list st; e_metrics_unavailable_list := e_metrics_unavailable_list st;
     e_trials := e_trials st; e_trials_succeeded := e_trials_succeeded st; e_trials_failed := e_trials_failed st;
     e_trials_killed := e_trials_killed st; e_trials_pending := e_trials_pending st;
     e_trials_running := e_trials_running st; e_trials_early_stopped := e_trials_early_stopped st;
     e_trials_metrics_unavailable := e_trials_metrics_unavailable st |}.

Definition with_completion (st : estatus) (c : option nat) : estatus :=
  {| e_conds := e_conds st; e_completion := c; e_optimal := e_optimal st;
     e_running_list := e_running_list st; e_pending_list := e_pending_list st; e_failed_list := e_failed_list st;
     e_succeeded_list := e_succeeded_list st; e_killed_list := e_killed_list st;
     e_early_stopped_list := e_early_stopped_list st; e_metrics_unavailable_list := e_metrics_unavailable_list st;
     e_trials := e_trials st; e_trials_succeeded := e_trials_succeeded st; e_trials_failed := e_trials_failed st;
     e_trials_killed := e_trials_killed st; e_trials_pending := e_trials_pending st;
     e_trials_running := e_trials_running st; e_trials_early_stopped := e_trials_early_stopped st;
     e_trials_metrics_unavailable := e_trials_metrics_unavailable st |}.

(* ------------------------------------------------------------------------------------------------------------ *)
(* trials/v1beta1/util.go                                                                                         *)

Definition is_created (t : trial) : bool := has_cond (t_conds t) TCreated.
Definition is_running (t : trial) : bool := has_cond (t_conds t) TRunning.
Definition is_succeeded (t : trial) : bool := has_cond (t_conds t) TSucceeded.
Definition is_failed (t : trial) : bool := has_cond (t_conds t) TFailed.
Definition is_killed (t : trial) : bool := has_cond (t_conds t) TKilled.
Definition is_metrics_unavailable (t : trial) : bool := has_cond (t_conds t) TMetricsUnavailable.
Definition is_early_stopped (t : trial) : bool := has_cond (t_conds t) TEarlyStopped.

(* IsCompleted *)
Definition is_completed (t : trial) : bool :=
  is_succeeded t || is_failed t || is_killed t || is_early_stopped t || is_metrics_unavailable t.

(* IsObservationAvailable (Spec.Objective non-nil): some metric of the observation carries the objective's name
   and a Latest other than "unavailable". *)
Definition is_observation_available (t : trial) : bool :=
  match t_observation t with
  | Some ms => existsb (fun m => Nat.eqb (m_name m) (t_objective_metric t) && negb (is_unavailable (m_latest m))) ms
  | None => false
  end.

Definition with_tconds (t : trial) (cs : conds) : trial :=
  {| t_name := t_name t; t_conds := cs; t_objective_metric := t_objective_metric t; t_strategies := t_strategies t;
     t_observation := t_observation t; t_assignments := t_assignments t |}.

(* MarkTrialStatusCreated / Running: setCondition(type, True, reason) *)
Definition mark_trial_created (t : trial) (reason : nat) : trial := with_tconds t (mark (t_conds t) TCreated reason).
Definition mark_trial_running (t : trial) (reason : nat) : trial := with_tconds t (mark (t_conds t) TRunning reason).

(* MarkTrialStatusSucceeded(status, reason): Running (if present) -> False keeping its reason; then
   setCondition(Succeeded, status, reason).  NB the status is a parameter here. *)
Definition mark_trial_succeeded (t : trial) (st : cstatus) (reason : nat) : trial :=
  with_tconds t (set_cond (turn_off (t_conds t) TRunning) TSucceeded st reason).

(* MarkTrialStatusFailed / Killed / MetricsUnavailable: Running off, then setCondition(type, True, reason) *)
Definition mark_trial_failed (t : trial) (reason : nat) : trial :=
  with_tconds t (mark (turn_off (t_conds t) TRunning) TFailed reason).
Definition mark_trial_killed (t : trial) (reason : nat) : trial :=
  with_tconds t (mark (turn_off (t_conds t) TRunning) TKilled reason).
Definition mark_trial_metrics_unavailable (t : trial) (reason : nat) : trial :=
  with_tconds t (mark (turn_off (t_conds t) TRunning) TMetricsUnavailable reason).

(* ------------------------------------------------------------------------------------------------------------ *)
(* experiments/v1beta1/util.go                                                                                    *)

Definition exp_is_created (st : estatus) : bool := has_cond (e_conds st) ECreated.
Definition exp_is_succeeded (st : estatus) : bool := has_cond (e_conds st) ESucceeded.
Definition exp_is_failed (st : estatus) : bool := has_cond (e_conds st) EFailed.
Definition exp_is_running (st : estatus) : bool := has_cond (e_conds st) ERunning.
Definition exp_is_restarting (st : estatus) : bool := has_cond (e_conds st) ERestarting.
Definition exp_is_completed (st : estatus) : bool := exp_is_succeeded st || exp_is_failed st.

(* IsCompletedReason: the first Succeeded condition is True and carries this reason *)
Definition exp_is_completed_reason (st : estatus) (reason : nat) : bool :=
  match get_cond (e_conds st) ESucceeded with
  | Some c => cstatus_eqb (cstat c) CTrue && Nat.eqb (creason c) reason
  | None => false
  end.

(* HasRunningTrials *)
Definition exp_has_running_trials (st : estatus) : bool := negb (e_trials_running st =? 0).

(* MarkExperimentStatusCreated: setCondition(Created, True) *)
Definition mark_exp_created (cs : conds) (reason : nat) : conds := mark cs ECreated reason.
(* MarkExperimentStatusRunning: setCondition(Running, True); Restarting is NOT removed (commented out in the code) *)
Definition mark_exp_running (cs : conds) (reason : nat) : conds := mark cs ERunning reason.
(* MarkExperimentStatusRestarting: remove Succeeded, remove Failed, setCondition(Restarting, True) *)
Definition mark_exp_restarting (cs : conds) (reason : nat) : conds :=
  mark (remove_cond (remove_cond cs ESucceeded) EFailed) ERestarting reason.
(* MarkExperimentStatusSucceeded: Running (if present) -> False keeping its reason; setCondition(Succeeded, True).
   Failed and Restarting are left as they are. *)
Definition mark_exp_succeeded (cs : conds) (reason : nat) : conds := mark (turn_off cs ERunning) ESucceeded reason.
(* MarkExperimentStatusFailed: Running (if present) -> False; setCondition(Failed, True).
   Succeeded and Restarting are left as they are. *)
Definition mark_exp_failed (cs : conds) (reason : nat) : conds := mark (turn_off cs ERunning) EFailed reason.

(* ------------------------------------------------------------------------------------------------------------ *)
(* status_util.go: getObjectiveMetricValue                                                                        *)

(* first loop: strategy of the first MetricStrategies entry named like the objective metric, "" if none *)
Definition objective_strategy (t : trial) : strategy :=
  match find (fun p => Nat.eqb (fst p) (t_objective_metric t)) (t_strategies t) with
  | Some p => snd p
  | None => SOther
  end.

(* second loop: every metric named like the objective metric hits the switch; the switch returns for
   min / max / latest and falls through (loop continues) for any other strategy *)
Fixpoint metric_value (name : nat) (s : strategy) (ms : list metric) : mval :=
  match ms with
  | [] => mval_unavailable
  | m :: r =>
      if Nat.eqb name (m_name m) then
        match s with
        | SMin => if is_unavailable (m_min m) then m_latest m else m_min m
        | SMax => if is_unavailable (m_max m) then m_latest m else m_max m
        | SLatest => m_latest m
        | SOther => metric_value name s r
        end
      else metric_value name s r
  end.

Definition objective_value (t : trial) : mval :=
  match t_observation t with
  | None => mval_unavailable
  | Some ms => metric_value (t_objective_metric t) (objective_strategy t) ms
  end.

(* ------------------------------------------------------------------------------------------------------------ *)
(* status_util.go: updateTrialsSummary                                                                            *)

(* the if / else-if chain of the loop body *)
Inductive tclass := KKilled | KFailed | KSucceeded | KEarlyStopped | KRunning | KMetricsUnavailable | KPending.

Definition tclass_eqb (a b : tclass) : bool :=
  match a, b with
  | KKilled, KKilled | KFailed, KFailed | KSucceeded, KSucceeded | KEarlyStopped, KEarlyStopped
  | KRunning, KRunning | KMetricsUnavailable, KMetricsUnavailable | KPending, KPending => true
  | _, _ => false
  end.

Definition classify (t : trial) : tclass :=
  if is_killed t then KKilled
  else if is_failed t then KFailed
  else if is_succeeded t then KSucceeded
  else if is_early_stopped t then KEarlyStopped
  else if is_running t then KRunning
  else if is_metrics_unavailable t then KMetricsUnavailable
  else KPending.

(* local variables of the loop that concern the optimum: bestTrialIndex (-1 = None), bestTrialValue,
   isObjectiveGoalReached *)
Record best := { b_index : option nat; b_value : Z; b_goal : bool }.

Definition best_init : best := {| b_index := None; b_value := 0; b_goal := false |}.

Definition goal_le (spec : espec) (v : Z) : bool := match obj_goal spec with Some g => v <=? g | None => false end.
Definition goal_ge (spec : espec) (v : Z) : bool := match obj_goal spec with Some g => g <=? v | None => false end.

(* lines 94-128 for the trial at position [index] *)
Definition best_step (spec : espec) (b : best) (index : nat) (t : trial) : best :=
  let v := objective_value t in
  if is_unavailable v then b                                                       (* continue *)
  else match mv_num v with
  | None => {| b_index := Some index; b_value := b_value b; b_goal := b_goal b |}  (* ParseFloat failed: continue *)
  | Some x =>
      let b1 := match b_index b with
                | None => {| b_index := Some index; b_value := x; b_goal := b_goal b |}
                | Some _ => b
                end in
      match obj_type spec with
      | Minimize =>
          let b2 := if x <? b_value b1 then {| b_index := Some index; b_value := x; b_goal := b_goal b1 |} else b1 in
          {| b_index := b_index b2; b_value := b_value b2; b_goal := b_goal b2 || goal_le spec (b_value b2) |}
      | Maximize =>
          let b2 := if b_value b1 <? x then {| b_index := Some index; b_value := x; b_goal := b_goal b1 |} else b1 in
          {| b_index := b_index b2; b_value := b_value b2; b_goal := b_goal b2 || goal_ge spec (b_value b2) |}
      | OTUnknown => b1
      end
  end.

(* all loop state: the seven name lists being appended to, sts.Trials, and [best] *)
Record loop := {
  l_trials : Z;
  l_killed : list nat; l_failed : list nat; l_succeeded : list nat; l_early_stopped : list nat;
  l_running : list nat; l_metrics_unavailable : list nat; l_pending : list nat;
  l_best : best
}.

Definition loop_init : loop :=
  {| l_trials := 0; l_killed := []; l_failed := []; l_succeeded := []; l_early_stopped := []; l_running := [];
     l_metrics_unavailable := []; l_pending := []; l_best := best_init |}.

Definition app_if (k k' : tclass) (l : list nat) (n : nat) : list nat := if tclass_eqb k k' then l ++ [n] else l.

Definition loop_step (spec : espec) (s : loop) (index : nat) (t : trial) : loop :=
  let k := classify t in
  {| l_trials := l_trials s + 1;
     l_killed := app_if k KKilled (l_killed s) (t_name t);
     l_failed := app_if k KFailed (l_failed s) (t_name t);
     l_succeeded := app_if k KSucceeded (l_succeeded s) (t_name t);
     l_early_stopped := app_if k KEarlyStopped (l_early_stopped s) (t_name t);
     l_running := app_if k KRunning (l_running s) (t_name t);
     l_metrics_unavailable := app_if k KMetricsUnavailable (l_metrics_unavailable s) (t_name t);
     l_pending := app_if k KPending (l_pending s) (t_name t);
     l_best := best_step spec (l_best s) index t |}.

(* for index, trial := range trials.Items, starting at [index] *)
Fixpoint run_loop (spec : espec) (s : loop) (index : nat) (ts : list trial) : loop :=
  match ts with
  | [] => s
  | t :: r => run_loop spec (loop_step spec s index t) (S index) r
  end.

Definition zlen {A} (l : list A) : Z := Z.of_nat (length l).

(* lines 139-149: copy the best trial; an index outside the list cannot occur (Proofs: best_index_in_range), the
   model then leaves the optimum unchanged *)
Definition new_optimal (prev : optimal) (b : best) (ts : list trial) : optimal :=
  match b_index b with
  | None => prev
  | Some i =>
      match nth_error ts i with
      | Some t =>
          {| best_name := t_name t; best_assignments := t_assignments t;
             best_observation := match t_observation t with Some ms => ms | None => [] end |}
      | None => prev
      end
  end.

(* updateTrialsSummary: the new status (conditions and completion time untouched) and isObjectiveGoalReached *)
Definition update_trials_summary (spec : espec) (st : estatus) (ts : list trial) : estatus * bool :=
  let s := run_loop spec loop_init 0%nat ts in
  ({| e_conds := e_conds st; e_completion := e_completion st;
      e_optimal := new_optimal (e_optimal st) (l_best s) ts;
      e_running_list := l_running s; e_pending_list := l_pending s; e_failed_list := l_failed s;
      e_succeeded_list := l_succeeded s; e_killed_list := l_killed s; e_early_stopped_list := l_early_stopped s;
      e_metrics_unavailable_list := l_metrics_unavailable s;
      e_trials := l_trials s;
      e_trials_succeeded := zlen (l_succeeded s); e_trials_failed := zlen (l_failed s);
      e_trials_killed := zlen (l_killed s); e_trials_pending := zlen (l_pending s);
      e_trials_running := zlen (l_running s); e_trials_early_stopped := zlen (l_early_stopped s);
      e_trials_metrics_unavailable := zlen (l_metrics_unavailable s) |},
   b_goal (l_best s)).

(* isObjectiveGoalReached as a function of spec and trials (it does not depend on the prior status) *)
Definition goal_reached (spec : espec) (ts : list trial) : bool := b_goal (l_best (run_loop spec loop_init 0%nat ts)).

(* ------------------------------------------------------------------------------------------------------------ *)
(* status_util.go: UpdateExperimentStatusCondition                                                                *)

Definition completed_trials_count (st : estatus) : Z :=
  e_trials_succeeded st + e_trials_failed st + e_trials_killed st + e_trials_early_stopped st +
  e_trials_metrics_unavailable st.
Definition failed_trials_count (st : estatus) : Z := e_trials_failed st + e_trials_metrics_unavailable st.
Definition active_trials_count (st : estatus) : Z := e_trials_pending st + e_trials_running st.

(* which branch is taken *)
Inductive verdict := VGoal | VFailed | VMaxTrials | VSuggestionEnd | VRunning.

Definition decide (spec : espec) (st : estatus) (goal_reached suggestion_done : bool) : verdict :=
  if goal_reached then VGoal
  else if match max_failed spec with
          | Some f => negb (failed_trials_count st =? 0) && (f <=? failed_trials_count st)
          | None => false
          end then VFailed
  else if match max_trials spec with
          | Some m => m <=? completed_trials_count st
          | None => false
          end then VMaxTrials
  else if suggestion_done && (active_trials_count st =? 0) then VSuggestionEnd
  else VRunning.

Definition update_experiment_status_condition (now : nat) (spec : espec) (st : estatus)
    (goal_reached suggestion_done : bool) : estatus :=
  match decide spec st goal_reached suggestion_done with
  | VGoal => with_completion (with_conds st (mark_exp_succeeded (e_conds st) RGoalReached)) (Some now)
  | VFailed => with_completion (with_conds st (mark_exp_failed (e_conds st) RExperimentFailed)) (Some now)
  | VMaxTrials => with_completion (with_conds st (mark_exp_succeeded (e_conds st) RMaxTrialsReached)) (Some now)
  | VSuggestionEnd => with_completion (with_conds st (mark_exp_succeeded (e_conds st) RSuggestionEndReached)) (Some now)
  | VRunning => with_conds st (mark_exp_running (e_conds st) RExperimentRunning)
  end.

(* UpdateExperimentStatus: summary always, conditions only while not completed *)
Definition update_experiment_status (now : nat) (spec : espec) (st : estatus) (ts : list trial) : estatus :=
  let '(st1, goal_reached) := update_trials_summary spec st ts in
  if exp_is_completed st1 then st1
  else update_experiment_status_condition now spec st1 goal_reached false.

(* IsCompletedExperimentRestartable *)
Definition is_completed_experiment_restartable (spec : espec) (st : estatus) : bool :=
  exp_is_succeeded st && exp_is_completed_reason st RMaxTrialsReached &&
  match resume_policy spec with LongRunning | FromVolume => true | _ => false end.
