(* Model of the trial-template substitution of katib's manifest generator
     pkg/controller.v1beta1/experiment/manifest/generator.go   applyParameters, GetTrialTemplate, GetRunSpecWithHyperParameters
     pkg/controller.v1beta1/consts/const.go                    TrialTemplateParamReplaceFormat, TrialTemplateMetaReplaceFormatRegex,
                                                               TrialTemplateMetaParseFormatRegex, TrialTemplateMetaKeyOf*
   Executable definitions only; the proofs are in Proofs/TemplateP.v.

   The text functions (strings.Replace, the placeholder format, chunk lists) are written once over an abstract
   alphabet with three distinguished characters and instantiated with [ascii] ('$', '{', '}') below, so that the
   proofs never compute with concrete characters.  Strings are [list ascii]. *)
From KV Require Import Base.Prelude.

Section Gen.
Variable A : Type.
Variable eqb : A -> A -> bool.
Variables d lb rb : A.            (* '$' '{' '}' *)
Variable pre : list A.            (* "trialParameters." *)

Fixpoint prefixb (p s : list A) : bool :=
  match p, s with
  | [], _ => true
  | a :: p', b :: s' => eqb a b && prefixb p' s'
  | _ :: _, [] => false
  end.

(* strings.Replace(s, p, v, -1) for a non-empty p: leftmost, non-overlapping occurrences.
   [skip] = number of characters of the occurrence just replaced that are still to be dropped. *)
Fixpoint repl (p v : list A) (skip : nat) (s : list A) : list A :=
  match s with
  | [] => []
  | c :: s' =>
    match skip with
    | S k => repl p v k s'
    | O => if prefixb p s then v ++ repl p v (length p - 1) s' else c :: repl p v 0 s'
    end
  end.

(* fmt.Sprintf(consts.TrialTemplateParamReplaceFormat, n) = "${trialParameters." ++ n ++ "}" *)
Definition ph (n : list A) : list A := d :: lb :: pre ++ n ++ [rb].

(* A template as the property sees it: literal text interleaved with placeholder occurrences.
   [Val] chunks (already substituted values) only appear in intermediate states of the proofs. *)
Inductive chunk := Lit (l : list A) | Val (v : list A) | Ph (n : list A).

Fixpoint render (cs : list chunk) : list A :=
  match cs with
  | [] => []
  | Lit l :: cs' => l ++ render cs'
  | Val v :: cs' => v ++ render cs'
  | Ph n :: cs' => ph n ++ render cs'
  end.

Definition seqb : list A -> list A -> bool := list_eqb eqb.

(* a Go map[string]string as an association list with distinct keys *)
Definition smap := list (list A * list A).

Fixpoint lookup (n : list A) (e : smap) : option (list A) :=
  match e with
  | [] => None
  | (m, v) :: e' => if seqb n m then Some v else lookup n e'
  end.

(* m[n] = v *)
Fixpoint set (n v : list A) (e : smap) : smap :=
  match e with
  | [] => [(n, v)]
  | (m, w) :: e' => if seqb n m then (m, v) :: e' else (m, w) :: set n v e'
  end.

(* the SPECIFICATION: simultaneous substitution of every placeholder occurrence by its value *)
Fixpoint subst_all (e : smap) (cs : list chunk) : list chunk :=
  match cs with
  | [] => []
  | Ph m :: cs' => (match lookup m e with Some v => Val v | None => Ph m end) :: subst_all e cs'
  | c :: cs' => c :: subst_all e cs'
  end.

Definition render_subst (e : smap) (cs : list chunk) : list A := render (subst_all e cs).

(* substitution of one name (used by the proofs) *)
Fixpoint subst_one (n v : list A) (cs : list chunk) : list chunk :=
  match cs with
  | [] => []
  | Ph m :: cs' => (if seqb m n then Val v else Ph m) :: subst_one n v cs'
  | c :: cs' => c :: subst_one n v cs'
  end.

(* the IMPLEMENTATION: `for placeHolder, paramValue := range placeHolderToValueMap { t = strings.Replace(t, ph, v, -1) }`
   in the order [ord] in which Go happens to iterate the map *)
Definition replace_seq (ord : smap) (s : list A) : list A :=
  fold_left (fun t nv => repl (ph (fst nv)) (snd nv) 0 t) ord s.

(* [t] differs from [p] at some position before either of them ends *)
Fixpoint diverges (t p : list A) : bool :=
  match t, p with
  | a :: t', b :: p' => negb (eqb a b) || diverges t' p'
  | _, _ => false
  end.

(* literal text: does not end in '$'; after every "${" the text visibly leaves "trialParameters." before the literal ends *)
Fixpoint lit_ok (l : list A) : bool :=
  match l with
  | [] => true
  | a :: l' =>
    (if eqb a d then
       match l' with
       | [] => false
       | b :: t => if eqb b lb then diverges t pre else true
       end
     else true) && lit_ok l'
  end.

Definition name_okb (n : list A) : bool := forallb (fun c => negb (eqb c lb) && negb (eqb c rb)) n.
Definition val_okb (v : list A) : bool := forallb (fun c => negb (eqb c d)) v.

Definition chunk_okb (c : chunk) : bool :=
  match c with Lit l => lit_ok l | Val v => val_okb v | Ph n => name_okb n end.

(* does p occur in s *)
Fixpoint occursb (p s : list A) : bool :=
  prefixb p s || match s with [] => false | _ :: s' => occursb p s' end.

Definition ph_names (cs : list chunk) : list (list A) :=
  flat_map (fun c => match c with Ph n => [n] | _ => [] end) cs.

Definition declaredb (cs : list chunk) (e : smap) : bool :=
  forallb (fun n => match lookup n e with Some _ => true | None => false end) (ph_names cs).

End Gen.

Arguments Lit {A} l.
Arguments Val {A} v.
Arguments Ph {A} n.

(* ------------------------------------------------------------------------------------------ ascii instance *)

Definition str := list ascii.
Definition s2l : string -> str := list_ascii_of_string.

Definition c_d : ascii := "$".
Definition c_lb : ascii := "{".
Definition c_rb : ascii := "}".
Definition c_pre : str := s2l "trialParameters.".
Definition c_open : str := c_d :: c_lb :: c_pre.       (* "${trialParameters." *)

Definition a_eqb : str -> str -> bool := seqb ascii Ascii.eqb.
Definition a_prefixb := prefixb ascii Ascii.eqb.
Definition a_repl := repl ascii Ascii.eqb.
Definition a_ph := ph ascii c_d c_lb c_rb c_pre.
Definition a_render := render ascii c_d c_lb c_rb c_pre.
Definition a_lookup := lookup ascii Ascii.eqb.
Definition a_set := set ascii Ascii.eqb.
Definition a_subst_all := subst_all ascii Ascii.eqb.
Definition a_render_subst := render_subst ascii Ascii.eqb c_d c_lb c_rb c_pre.
Definition a_replace_seq := replace_seq ascii Ascii.eqb c_d c_lb c_rb c_pre.
Definition a_lit_ok := lit_ok ascii Ascii.eqb c_d c_lb c_pre.
Definition a_name_okb := name_okb ascii Ascii.eqb c_lb c_rb.
Definition a_val_okb := val_okb ascii Ascii.eqb c_d.
Definition a_chunk_okb := chunk_okb ascii Ascii.eqb c_d c_lb c_rb c_pre.
Definition a_occursb := occursb ascii Ascii.eqb.
Definition a_declaredb := declaredb ascii Ascii.eqb.
Definition amap := smap ascii.
Definition achunk := chunk ascii.

(* ------------------------------------------------------------------------------------------ meta references *)

(* regexp "\$\{trialSpec\.(.+?)\}" (consts.TrialTemplateMetaReplaceFormatRegex), FindStringSubmatch: unanchored,
   leftmost, lazy; '.' does not match a newline.  Result: the text of group 1, None when there is no match. *)
Definition c_nl : ascii := ascii_of_nat 10.
Definition meta_open : str := s2l "${trialSpec.".

Fixpoint strip_prefix (p s : str) : option str :=
  match p, s with
  | [], _ => Some s
  | a :: p', b :: s' => if Ascii.eqb a b then strip_prefix p' s' else None
  | _ :: _, [] => None
  end.

(* characters before the first '}', None when a newline or the end of the text comes first *)
Fixpoint upto_rb (s : str) : option str :=
  match s with
  | [] => None
  | c :: s' => if Ascii.eqb c c_rb then Some []
               else if Ascii.eqb c c_nl then None
               else option_map (cons c) (upto_rb s')
  end.

Definition meta_at (s : str) : option str :=
  match strip_prefix meta_open s with
  | Some (x :: rest) => if Ascii.eqb x c_nl then None else option_map (cons x) (upto_rb rest)
  | _ => None
  end.

Fixpoint find_meta (s : str) : option str :=
  match meta_at s with
  | Some k => Some k
  | None => match s with [] => None | _ :: s' => find_meta s' end
  end.

(* regexp "(.+)\[(.+)]" (consts.TrialTemplateMetaParseFormatRegex) on a text without newline: both groups greedy.
   Group 2 ends at the last ']'; group 1 ends at the last '[' that leaves both groups non-empty. *)
Fixpoint split_first (c : ascii) (s : str) : option (str * str) :=
  match s with
  | [] => None
  | x :: s' => if Ascii.eqb x c then Some ([], s')
               else match split_first c s' with Some (b, a) => Some (x :: b, a) | None => None end
  end.

Definition split_last (c : ascii) (s : str) : option (str * str) :=
  match split_first c (rev s) with
  | Some (b, a) => Some (rev a, rev b)
  | None => None
  end.

Definition parse_index (key : str) : option (str * str) :=
  match split_last "]" key with
  | Some (a, _) =>
      match split_last "[" (removelast a) with
      | Some (g1, _) =>
          match g1 with
          | [] => None
          | _ => Some (g1, skipn (S (length g1)) a)
          end
      | None => None
      end
  | None => None
  end.

(* ------------------------------------------------------------------------------------------ applyParameters *)

Record gen_input := GenInput {
  gi_tps : list (str * str);        (* spec.trialTemplate.trialParameters: (name, reference), in order *)
  gi_assign : list (str * str);     (* the assignments: (name, value), in order *)
  gi_tname : str;                   (* trialName *)
  gi_tns : str;                     (* trialNamespace *)
  gi_kind : str;                    (* trialSpec.GetKind() *)
  gi_apiv : str;                    (* trialSpec.GetAPIVersion() *)
  gi_annots : amap;                 (* trialSpec.GetAnnotations() *)
  gi_labels : amap                  (* trialSpec.GetLabels() *)
}.

(* error sites of applyParameters / GetTrialTemplate / GetRunSpecWithHyperParameters *)
Definition E_cm_not_found : nat := 1.        (* errConfigMapNotFound *)
Definition E_tpl_not_found : nat := 2.       (* errTrialTemplateNotFound *)
Definition E_tpl_unparsable : nat := 3.      (* errConvertStringToUnstructuredFailed, ConfigMap text *)
Definition E_no_assignment : nat := 4.       (* errParamNotFoundInParameterAssignment *)
Definition E_bad_meta : nat := 5.            (* "illegal reference of trial metadata" *)
Definition E_count : nat := 6.               (* errParamNotFoundInTrialParameters *)
Definition E_result_unparsable : nat := 7.   (* errConvertStringToUnstructuredFailed, substituted text *)

(* assignmentsMap *)
Definition assign_map (l : list (str * str)) : amap :=
  fold_left (fun m a => a_set (fst a) (snd a) m) l [].

Definition meta_key_is (k : str) (s : string) : bool := a_eqb k (s2l s).

(* The meta part of the loop body: which metadata value a key denotes.  [idx] is metaRefIndex. *)
Definition meta_value (gi : gen_input) (key idx : str) : outcome str :=
  if meta_key_is key "Name" then Ok (gi_tname gi)
  else if meta_key_is key "Namespace" then Ok (gi_tns gi)
  else if meta_key_is key "Kind" then Ok (gi_kind gi)
  else if meta_key_is key "APIVersion" then Ok (gi_apiv gi)
  else if meta_key_is key "Annotations" then
    match a_lookup idx (gi_annots gi) with Some v => Ok v | None => Err E_bad_meta end
  else if meta_key_is key "Labels" then
    match a_lookup idx (gi_labels gi) with Some v => Ok v | None => Err E_bad_meta end
  else Err E_bad_meta.

(* Loop state: placeHolderToValueMap, nonMetaParamCount.
   REPAIRED behaviour (finding C02/meta-stale-index): metaRefIndex is empty at the start of every iteration.
   In the pinned tree the variable is declared outside the loop, see [param_step_stale] below. *)
Definition loop_state := (amap * nat)%type.

Definition param_step (gi : gen_input) (am : amap) (st : loop_state) (p : str * str) : outcome loop_state :=
  let '(e, cnt) := st in
  let '(name, ref) := p in
  match find_meta ref with
  | None =>
      match a_lookup ref am with
      | Some v => Ok (a_set name v e, S cnt)
      | None => Err E_no_assignment
      end
  | Some key0 =>
      let '(key, idx) := match parse_index key0 with Some (k, i) => (k, i) | None => (key0, []) end in
      match meta_value gi key idx with
      | Ok v => Ok (a_set name v e, cnt)
      | Err c => Err c
      | Crash c => Crash c
      end
  end.

Fixpoint param_loop (gi : gen_input) (am : amap) (st : loop_state) (ps : list (str * str)) : outcome loop_state :=
  match ps with
  | [] => Ok st
  | p :: ps' =>
      match param_step gi am st p with
      | Ok st' => param_loop gi am st' ps'
      | Err c => Err c
      | Crash c => Crash c
      end
  end.

(* the placeholder map, or the error of the loop / of the count check *)
Definition build_env (gi : gen_input) : outcome amap :=
  match param_loop gi (assign_map (gi_assign gi)) ([], 0) (gi_tps gi) with
  | Ok (e, cnt) => if Nat.eqb (length (gi_assign gi)) cnt then Ok e else Err E_count
  | Err c => Err c
  | Crash c => Crash c
  end.

(* The PINNED tree: `var metaRefKey, metaRefIndex string` is declared before the loop, so the index parsed for one
   trial parameter is still in the variable when a later reference "${trialSpec.Labels}" carries no index. *)
Definition param_step_stale (gi : gen_input) (am : amap) (st : loop_state * str) (p : str * str) : outcome (loop_state * str) :=
  let '(e, cnt, idx0) := st in
  let '(name, ref) := p in
  match find_meta ref with
  | None =>
      match a_lookup ref am with
      | Some v => Ok (a_set name v e, S cnt, idx0)
      | None => Err E_no_assignment
      end
  | Some key0 =>
      let '(key, idx) := match parse_index key0 with Some (k, i) => (k, i) | None => (key0, idx0) end in
      match meta_value gi key idx with
      | Ok v => Ok (a_set name v e, cnt, idx)
      | Err c => Err c
      | Crash c => Crash c
      end
  end.

Fixpoint param_loop_stale (gi : gen_input) (am : amap) (st : loop_state * str) (ps : list (str * str)) : outcome (loop_state * str) :=
  match ps with
  | [] => Ok st
  | p :: ps' =>
      match param_step_stale gi am st p with
      | Ok st' => param_loop_stale gi am st' ps'
      | Err c => Err c
      | Crash c => Crash c
      end
  end.

Definition build_env_stale (gi : gen_input) : outcome amap :=
  match param_loop_stale gi (assign_map (gi_assign gi)) ([], 0, []) (gi_tps gi) with
  | Ok (e, cnt, _) => if Nat.eqb (length (gi_assign gi)) cnt then Ok e else Err E_count
  | Err c => Err c
  | Crash c => Crash c
  end.

(* applyParameters on a template text, the map being iterated in the order chosen by [reorder] *)
Definition apply_parameters (reorder : amap -> amap) (gi : gen_input) (tpl : str) : outcome str :=
  match build_env gi with
  | Ok e => Ok (a_replace_seq (reorder e) tpl)
  | Err c => Err c
  | Crash c => Crash c
  end.

(* ------------------------------------------------------------------------------------------ GetRunSpecWithHyperParameters *)

(* Where the template comes from.  [cm_keys] = keys of the ConfigMap's data when the ConfigMap exists;
   [cm_parses] = the YAML/JSON decoder accepts the template text (library result supplied by the harness). *)
Inductive source :=
| Inline
| FromConfigMap (cm_keys : option (list str)) (path : str) (cm_parses : bool).

Definition get_template_check (src : source) : outcome unit :=
  match src with
  | Inline => Ok tt
  | FromConfigMap None _ _ => Err E_cm_not_found
  | FromConfigMap (Some keys) path parses =>
      if existsb (a_eqb path) keys then (if parses then Ok tt else Err E_tpl_unparsable) else Err E_tpl_not_found
  end.

(* The run spec as the list of its string leaves (JSON/YAML structure stays outside the model) together with the
   name and namespace set at the end. *)
Record run_spec := RunSpec { rs_leaves : list str; rs_name : str; rs_ns : str }.

Definition get_run_spec (reorder : amap -> amap) (src : source) (gi : gen_input) (leaves : list str) : outcome run_spec :=
  match get_template_check src with
  | Ok _ =>
      match build_env gi with
      | Ok e => Ok {| rs_leaves := map (a_replace_seq (reorder e)) leaves; rs_name := gi_tname gi; rs_ns := gi_tns gi |}
      | Err c => Err c
      | Crash c => Crash c
      end
  | Err c => Err c
  | Crash c => Crash c
  end.
