(* The joint controller model (DESIGN.md section 5): the Experiment, Suggestion and Trial reconcilers of
   pkg/controller.v1beta1 running against a store with optimistic concurrency, per-kind informer caches that lag,
   pending writes per reconcile (so that other actions interleave between two writes of one reconcile), injected
   write faults, aborts, and the environment (jobs, metrics, early stopping, deployment readiness, user raising
   maxTrialCount).  Executable definitions only; the proofs are in Proofs/World*.v.

   Transcription tables: DESIGN.md Appendix B.  One experiment in one namespace; names are numbers. *)
From KV Require Import Base.Prelude Base.Cond.
Open Scope Z_scope.

(* ------------------------------------------------------------------ condition types and reasons (enums) *)

(* Trial condition types *)
Definition TCreated := 0%nat.   Definition TRunning := 1%nat.  Definition TSucceeded := 2%nat.
Definition TKilled := 3%nat.    Definition TFailed := 4%nat.   Definition TMetricsUnavailable := 5%nat.
Definition TEarlyStopped := 6%nat.
(* Experiment condition types *)
Definition ECreated := 0%nat.   Definition ERunning := 1%nat.  Definition ERestarting := 2%nat.
Definition ESucceeded := 3%nat. Definition EFailed := 4%nat.
(* Suggestion condition types *)
Definition SCreated := 0%nat.   Definition SDeploymentReady := 1%nat.  Definition SRunning := 2%nat.
Definition SSucceeded := 3%nat. Definition SFailed := 4%nat.

(* reasons *)
Definition RCreated := 0%nat.        Definition RRunning := 1%nat.          Definition RRestarting := 2%nat.
Definition RGoalReached := 3%nat.    Definition RMaxTrialsReached := 4%nat. Definition RFailed := 5%nat.
Definition RSucceeded := 6%nat.      Definition RMetricsUnavailable := 7%nat. Definition REarlyStopped := 8%nat.
Definition RDeploymentReady := 9%nat. Definition RDeploymentNotReady := 10%nat.
Definition RSugRestart := 11%nat.    (* "Experiment is restarting" *)
Definition RSugSucceeded := 12%nat.  (* "Suggestion is succeeded" *)
Definition RExpSucceeded := 13%nat.  (* "Experiment is succeeded" *)

(* ------------------------------------------------------------------ configuration and objects *)

Inductive resume_policy := Never | LongRunning | FromVolume.

Record cfg := {
  c_max : option Z; c_par : Z; c_maxfailed : option Z;
  c_goal : option Z; c_minimize : bool;
  c_resume : resume_policy; c_es : bool; c_retain : bool; c_push : bool }.

(* observation of a trial: [None] no observation yet; [Some None] fetched, objective "unavailable";
   [Some (Some z)] objective value z (per the objective's strategy) *)
Definition obs := option (option Z).

Record trial := {
  t_name : nat; t_conds : conds; t_obs : obs; t_ctime : option nat;
  t_fin : bool; t_deleting : bool; t_rv : nat }.

Inductive class := KKilled | KFailed | KSucceeded | KEarlyStopped | KRunning | KMetricsUnavailable | KPending.

Record counts := {
  n_pending : Z; n_running : Z; n_succeeded : Z; n_failed : Z; n_killed : Z; n_es : Z; n_mu : Z; n_trials : Z }.

Definition zero_counts : counts :=
  {| n_pending := 0; n_running := 0; n_succeeded := 0; n_failed := 0; n_killed := 0; n_es := 0; n_mu := 0; n_trials := 0 |}.

(* status of the experiment *)
Record estatus := {
  es_conds : conds; es_counts : counts; es_classes : list (nat * class);
  es_opt : option (nat * obs); es_ctime : option nat }.

Record expobj := {
  e_max : option Z;              (* spec.maxTrialCount: the only spec field the modelled user edits *)
  e_fin : bool; e_deleting : bool;
  e_st : estatus; e_rv : nat }.

Record sstatus := { ss_names : list nat; ss_count : Z; ss_conds : conds; ss_settings : nat }.

Record sugobj := { s_requests : Z; s_st : sstatus; s_rv : nat }.

Inductive jphase := JActive | JSucc | JFail.
Record job := { j_name : nat; j_phase : jphase }.

Inductive ikind := IDep | ISvc | IPvc | ISa | IRole | IRb.

Record infra := { i_dep : option bool (* exists, available *); i_svc : bool; i_pvc : bool;
                  i_sa : bool; i_role : bool; i_rb : bool }.

(* ------------------------------------------------------------------ writes, faults, responses *)

Inductive write :=
| WExpFin (add : bool) (rv : nat)
| WExpStatus (st : estatus) (rv : nat)
| WSugCreate (requests : Z)
| WSugSpec (requests : Z) (rv : nat)
| WSugStatus (st : sstatus) (rv : nat)
| WTrialCreate (name : nat)
| WTrialFin (name : nat) (add : bool) (rv : nat)
| WTrialStatus (name : nat) (cs : conds) (o : obs) (ct : option nat) (rv : nat)
| WJobCreate (name : nat)
| WJobDelete (name : nat)
| WInfraCreate (k : ikind)
| WInfraDelete (k : ikind)
| WDbDelete (name : nat)
| WDbReportUnavailable (name : nat)
| WDeleteTrials.                     (* the deleteTrials path: needs a spec edit; shown never to be planned *)

Inductive onfail := Stop | Cont.
Definition pending := list (write * onfail).

Inductive ctl := CExp | CSug | CTrial.

(* answers of the fake services for one suggestion reconcile *)
Inductive reply := ReplyErr | ReplyOk (names : list nat) (settings : option nat).
Record sresp := { r_valid : bool; r_esvalid : bool; r_reply : reply; r_esrules : bool }.

(* an RPC as seen by the fake algorithm / early-stopping service *)
Inductive rpc :=
| RpcValidate | RpcValidateES
| RpcGetSuggestions (current total : Z) (sent : list nat)
| RpcGetESRules (sent : list nat).

Inductive action :=
| Begin (c : ctl) (key : nat) (resp : sresp) (dberr : bool)
| Write (c : ctl) (inject_failure : bool)
| Abort (c : ctl)
| JobDone (t : nat) (ok : bool)
| JobGone (t : nat)                 (* the run object is removed by something other than katib (TTL, user) *)
| Metrics (t : nat) (v : option Z)
| EarlyStop (t : nat) (v : option Z)
| DeployAvailable (b : bool)
| SyncExp | SyncSug | SyncTrials
| UserRaiseMax (n : Z)
| DeleteExperiment                  (* teardown: experiment gets a deletion timestamp; trials are garbage collected *)
| GcTrial (t : nat).

Definition is_teardown (a : action) : bool :=
  match a with DeleteExperiment | GcTrial _ => true | _ => false end.

(* ------------------------------------------------------------------ the world *)

Record world := {
  w_cfg : cfg;
  w_exp : option expobj;
  w_sug : option sugobj;
  w_trials : list trial;
  w_jobs : list job;
  w_infra : infra;
  w_db : list (nat * option Z);
  c_exp : option expobj;
  c_sug : option sugobj;
  c_trials : list trial;
  p_exp : pending; p_sug : pending; p_trial : pending;
  w_clock : nat;
  (* ghost history *)
  g_maxreq : Z;                       (* largest spec.requests ever stored *)
  g_rpcs : list rpc;
  g_jobcreates : list nat; g_jobdeletes : list nat;
  g_dbdeletes : list nat; g_finreleased : list nat;
  g_writes : nat                      (* number of write attempts issued so far (hot-loop detection) *)
}.

Definition empty_infra : infra := {| i_dep := None; i_svc := false; i_pvc := false; i_sa := false; i_role := false; i_rb := false |}.

Definition empty_status : estatus :=
  {| es_conds := []; es_counts := zero_counts; es_classes := []; es_opt := None; es_ctime := None |}.

Definition init (c : cfg) : world :=
  let e := {| e_max := c_max c; e_fin := false; e_deleting := false; e_st := empty_status; e_rv := 1%nat |} in
  {| w_cfg := c; w_exp := Some e; w_sug := None; w_trials := []; w_jobs := []; w_infra := empty_infra; w_db := [];
     c_exp := Some e; c_sug := None; c_trials := [];
     p_exp := []; p_sug := []; p_trial := []; w_clock := 1%nat;
     g_maxreq := 0; g_rpcs := []; g_jobcreates := []; g_jobdeletes := []; g_dbdeletes := []; g_finreleased := [];
     g_writes := 0%nat |}.

(* ------------------------------------------------------------------ trial predicates (pkg/apis/controller/trials/v1beta1/util.go) *)

Definition t_is (t : trial) (k : nat) : bool := has_cond (t_conds t) k.
Definition t_completed (t : trial) : bool :=
  t_is t TSucceeded || t_is t TFailed || t_is t TKilled || t_is t TEarlyStopped || t_is t TMetricsUnavailable.
Definition obs_available (o : obs) : bool := match o with Some (Some _) => true | _ => false end.
Definition t_obs_available (t : trial) : bool := obs_available (t_obs t).

(* Mark* helpers: Running is turned off, then the verdict condition is set *)
Definition tmark_off_and (cs : conds) (k r : nat) : conds := mark (turn_off cs TRunning) k r.

Definition classify (t : trial) : class :=
  if t_is t TKilled then KKilled else if t_is t TFailed then KFailed else if t_is t TSucceeded then KSucceeded
  else if t_is t TEarlyStopped then KEarlyStopped else if t_is t TRunning then KRunning
  else if t_is t TMetricsUnavailable then KMetricsUnavailable else KPending.

Definition class_eqb (a b : class) : bool :=
  match a, b with
  | KKilled, KKilled | KFailed, KFailed | KSucceeded, KSucceeded | KEarlyStopped, KEarlyStopped
  | KRunning, KRunning | KMetricsUnavailable, KMetricsUnavailable | KPending, KPending => true
  | _, _ => false
  end.

Definition count_class (k : class) (l : list (nat * class)) : Z :=
  Z.of_nat (length (filter (fun p => class_eqb (snd p) k) l)).

Definition counts_of (l : list (nat * class)) : counts :=
  {| n_pending := count_class KPending l; n_running := count_class KRunning l; n_succeeded := count_class KSucceeded l;
     n_failed := count_class KFailed l; n_killed := count_class KKilled l; n_es := count_class KEarlyStopped l;
     n_mu := count_class KMetricsUnavailable l; n_trials := Z.of_nat (length l) |}.

(* ------------------------------------------------------------------ experiment status (experiment/util/status_util.go) *)

Definition e_is (st : estatus) (k : nat) : bool := has_cond (es_conds st) k.
Definition e_completed (st : estatus) : bool := e_is st ESucceeded || e_is st EFailed.

Definition emark_verdict (cs : conds) (k r : nat) : conds := mark (turn_off cs ERunning) k r.

Definition objective (t : trial) : option Z := match t_obs t with Some (Some z) => Some z | _ => None end.

(* running best with strict comparison, first wins; goal flag raised while scanning *)
Fixpoint scan_best (minimize : bool) (goal : option Z) (ts : list trial) (best : option (trial * Z)) (reached : bool)
  : option (trial * Z) * bool :=
  match ts with
  | [] => (best, reached)
  | t :: r =>
      match objective t with
      | None => scan_best minimize goal r best reached
      | Some v =>
          let best' := match best with
                       | None => (t, v)
                       | Some (bt, bv) => if minimize then (if v <? bv then (t, v) else (bt, bv))
                                          else (if bv <? v then (t, v) else (bt, bv))
                       end in
          let reached' := match goal with
                          | None => reached
                          | Some g => if minimize then (snd best' <=? g) || reached else (g <=? snd best') || reached
                          end in
          scan_best minimize goal r (Some best') reached'
      end
  end.

Definition completed_count (c : counts) : Z := n_succeeded c + n_failed c + n_killed c + n_es c + n_mu c.

(* UpdateExperimentStatusCondition with getSuggestionDone = false *)
Definition update_condition (cf : cfg) (mx : option Z) (now : nat) (st : estatus) (reached : bool) : estatus :=
  let c := es_counts st in
  let failedn := n_failed c + n_mu c in
  if reached then
    {| es_conds := emark_verdict (es_conds st) ESucceeded RGoalReached; es_counts := c; es_classes := es_classes st;
       es_opt := es_opt st; es_ctime := Some now |}
  else if match c_maxfailed cf with Some f => negb (failedn =? 0) && (f <=? failedn) | None => false end then
    {| es_conds := emark_verdict (es_conds st) EFailed RFailed; es_counts := c; es_classes := es_classes st;
       es_opt := es_opt st; es_ctime := Some now |}
  else if match mx with Some m => m <=? completed_count c | None => false end then
    {| es_conds := emark_verdict (es_conds st) ESucceeded RMaxTrialsReached; es_counts := c; es_classes := es_classes st;
       es_opt := es_opt st; es_ctime := Some now |}
  else
    {| es_conds := mark (es_conds st) ERunning RRunning; es_counts := c; es_classes := es_classes st;
       es_opt := es_opt st; es_ctime := es_ctime st |}.

(* UpdateExperimentStatus on a non-empty trial list *)
Definition update_status (cf : cfg) (mx : option Z) (now : nat) (st : estatus) (ts : list trial) : estatus :=
  let classes := map (fun t => (t_name t, classify t)) ts in
  let '(best, reached) := scan_best (c_minimize cf) (c_goal cf) ts None false in
  let st1 := {| es_conds := es_conds st; es_counts := counts_of classes; es_classes := classes;
                es_opt := match best with Some (t, _) => Some (t_name t, t_obs t) | None => es_opt st end;
                es_ctime := es_ctime st |} in
  if e_completed st1 then st1 else update_condition cf mx now st1 reached.

Definition restartable (cf : cfg) (st : estatus) : bool :=
  match get_cond (es_conds st) ESucceeded with
  | Some c => cstatus_eqb (cstat c) CTrue && Nat.eqb (creason c) RMaxTrialsReached &&
              match c_resume cf with LongRunning | FromVolume => true | Never => false end
  | None => false
  end.

Definition mark_restarting (st : estatus) : estatus :=
  {| es_conds := mark (remove_cond (remove_cond (es_conds st) ESucceeded) EFailed) ERestarting RRestarting;
     es_counts := es_counts st; es_classes := es_classes st; es_opt := es_opt st; es_ctime := es_ctime st |}.

Definition with_conds (st : estatus) (cs : conds) : estatus :=
  {| es_conds := cs; es_counts := es_counts st; es_classes := es_classes st; es_opt := es_opt st; es_ctime := es_ctime st |}.

(* ------------------------------------------------------------------ suggestion conditions (suggestions/v1beta1/util.go) *)

Definition s_is (st : sstatus) (k : nat) : bool := has_cond (ss_conds st) k.
Definition s_completed (st : sstatus) : bool := s_is st SSucceeded || s_is st SFailed.
Definition s_restarting (st : sstatus) : bool :=
  match get_cond (ss_conds st) SRunning with
  | Some c => cstatus_eqb (cstat c) CFalse && Nat.eqb (creason c) RSugRestart
  | None => false
  end.

Definition s_with_conds (st : sstatus) (cs : conds) : sstatus :=
  {| ss_names := ss_names st; ss_count := ss_count st; ss_conds := cs; ss_settings := ss_settings st |}.

(* MarkSuggestionStatusSucceeded *)
Definition smark_succeeded (cs : conds) : conds :=
  let cs1 := match get_cond cs SRunning with Some _ => set_cond cs SRunning CFalse RSugSucceeded | None => cs end in
  let cs2 := match get_cond cs1 SDeploymentReady with Some _ => set_cond cs1 SDeploymentReady CFalse RSugSucceeded | None => cs1 end in
  set_cond cs2 SSucceeded CTrue RExpSucceeded.

(* MarkSuggestionStatusRunning status reason: drops Succeeded first *)
Definition smark_running (cs : conds) (st : cstatus) (r : nat) : conds := set_cond (remove_cond cs SSucceeded) SRunning st r.

Definition smark_failed (cs : conds) : conds := mark (turn_off cs SRunning) SFailed RFailed.

(* ------------------------------------------------------------------ equality of statuses ("status changed?") *)

Definition conds_eqb := list_eqb cond_eqb.
Definition optZ_eqb := option_eqb Z.eqb.
Definition obs_eqb : obs -> obs -> bool := option_eqb optZ_eqb.
Definition optnat_eqb := option_eqb Nat.eqb.

Definition counts_eqb (a b : counts) : bool :=
  (n_pending a =? n_pending b) && (n_running a =? n_running b) && (n_succeeded a =? n_succeeded b) &&
  (n_failed a =? n_failed b) && (n_killed a =? n_killed b) && (n_es a =? n_es b) && (n_mu a =? n_mu b) &&
  (n_trials a =? n_trials b).

Definition estatus_eqb (a b : estatus) : bool :=
  conds_eqb (es_conds a) (es_conds b) && counts_eqb (es_counts a) (es_counts b) &&
  list_eqb (fun p q => Nat.eqb (fst p) (fst q) && class_eqb (snd p) (snd q)) (es_classes a) (es_classes b) &&
  option_eqb (fun p q => Nat.eqb (fst p) (fst q) && obs_eqb (snd p) (snd q)) (es_opt a) (es_opt b) &&
  optnat_eqb (es_ctime a) (es_ctime b).

Definition sstatus_eqb (a b : sstatus) : bool :=
  list_eqb Nat.eqb (ss_names a) (ss_names b) && (ss_count a =? ss_count b) && conds_eqb (ss_conds a) (ss_conds b) &&
  Nat.eqb (ss_settings a) (ss_settings b).

(* ------------------------------------------------------------------ planning: experiment controller *)

Definition mem (n : nat) (l : list nat) : bool := existsb (Nat.eqb n) l.

(* ReconcileSuggestions + createTrials, given the status computed so far; returns the writes and the status *)
Definition plan_create (cf : cfg) (st : estatus) (ts : list trial) (sug : option sugobj) (add : Z) : pending * estatus :=
  let current := Z.of_nat (length ts) in
  let ies := Z.of_nat (length (filter (fun t => negb (t_obs_available t) && t_is t TEarlyStopped) ts)) in
  let requests := current + add - ies in
  match sug with
  | None => ([(WSugCreate requests, Stop)], st)
  | Some s =>
      if s_is (s_st s) SFailed then ([], with_conds st (emark_verdict (es_conds st) EFailed RFailed))
      else if s_is (s_st s) SSucceeded && match c_resume cf with FromVolume => true | _ => false end then
        (* a Succeeded suggestion of a running experiment is left over from a cleanup that raced with the restart: restart it
           (repair of F18); the assignments are requested by a later reconcile *)
        ((if s_restarting (s_st s) then []
          else [(WSugStatus (s_with_conds (s_st s) (smark_running (ss_conds (s_st s)) CFalse RSugRestart)) (s_rv s), Stop)]), st)
      else
        let names := map t_name ts in
        let assignments := if current <? Z.of_nat (length (ss_names (s_st s)))
                           then filter (fun n => negb (mem n names)) (ss_names (s_st s)) else [] in
        ((if s_requests s =? requests then [] else [(WSugSpec requests (s_rv s), Stop)])
           ++ map (fun n => (WTrialCreate n, Cont)) assignments, st)
  end.

(* ReconcileTrials *)
Definition plan_trials (cf : cfg) (mx : option Z) (st : estatus) (ts : list trial) (sug : option sugobj) : pending * estatus :=
  let c := es_counts st in
  let par := c_par cf in
  let active := n_pending c + n_running c in
  let completed := completed_count c in
  if par <? active then ([(WDeleteTrials, Stop)], st)
  else if active <? par then
    let required := match mx with None => par | Some m => Z.min (m - completed) par end in
    let add := Z.max 0 (required - active) in
    if 0 <? add then plan_create cf st ts sug add else ([], st)
  else ([], st).

Definition status_write (e : expobj) (st : estatus) : pending :=
  if estatus_eqb (e_st e) st then [] else [(WExpStatus st (e_rv e), Stop)].

(* the "experiment is completed" part of Reconcile: cleanup of the suggestion, restart test.
   Returns the writes, the status in memory, and whether the reconcile stops here. *)
Definition plan_exp_completed (cf : cfg) (e : expobj) (sug : option sugobj) : pending * estatus * bool :=
  let st0 := e_st e in
  if e_completed st0 then
    let cleanup :=
      match c_resume cf, sug with
      | LongRunning, _ | _, None => []
      | _, Some s => if s_completed (s_st s) || s_restarting (s_st s) then []
                     else [(WSugStatus (s_with_conds (s_st s) (smark_succeeded (ss_conds (s_st s)))) (s_rv s), Stop)]
      end in
    if restartable cf st0 && match e_max e with Some m => n_trials (es_counts st0) <? m | None => false end then
      let restart :=
        match c_resume cf, sug with
        | FromVolume, Some s => if s_restarting (s_st s) then []
                                else [(WSugStatus (s_with_conds (s_st s) (smark_running (ss_conds (s_st s)) CFalse RSugRestart)) (s_rv s), Stop)]
        | _, _ => []
        end in
      (cleanup ++ restart, mark_restarting st0, false)
    else (cleanup, st0, n_running (es_counts st0) =? 0)
  else ([], st0, false).

(* ReconcileExperiment on the status in memory *)
Definition plan_exp_reconcile (w : world) (e : expobj) (st1 : estatus) : pending :=
  let cf := w_cfg w in
  let ts := c_trials w in
  let st2 := match ts with [] => st1 | _ => update_status cf (e_max e) (w_clock w) st1 ts end in
  if e_completed st2 then status_write e st2
  else
    let '(ws2, st3) := plan_trials cf (e_max e) st2 ts (c_sug w) in
    ws2 ++ status_write e st3.

Definition plan_exp (w : world) : pending :=
  let cf := w_cfg w in
  match c_exp w with
  | None => []
  | Some e =>
      if negb (e_deleting e) && negb (e_fin e) then [(WExpFin true (e_rv e), Stop)]
      else if e_deleting e && e_fin e then [(WExpFin false (e_rv e), Stop)]
      else
        let '(ws1, st1, stop) := plan_exp_completed cf e (c_sug w) in
        if stop then ws1
        else if negb (e_is st1 ECreated) then
          ws1 ++ status_write e (with_conds st1 (mark (es_conds st1) ECreated RCreated))
        else ws1 ++ plan_exp_reconcile w e st1
  end.

(* ------------------------------------------------------------------ planning: suggestion controller *)

Definition convert_filter (ts : list trial) : list nat :=
  map t_name (filter (fun t => negb (t_is t TMetricsUnavailable) && negb (t_is t TEarlyStopped && negb (t_obs_available t))) ts).

Definition sstatus_write (s : sugobj) (st : sstatus) : pending :=
  if sstatus_eqb (s_st s) st then [] else [(WSugStatus st (s_rv s), Stop)].

(* the error path: only the conditions of this reconcile on top of the old status *)
Definition sstatus_write_conds (s : sugobj) (cs : conds) : pending :=
  if conds_eqb (ss_conds (s_st s)) cs then [] else [(WSugStatus (s_with_conds (s_st s) cs) (s_rv s), Stop)].

Definition infra_creates (cf : cfg) (i : infra) : pending :=
  (match c_resume cf with FromVolume => if i_pvc i then [] else [(WInfraCreate IPvc, Stop)] | _ => [] end)
  ++ (if i_svc i then [] else [(WInfraCreate ISvc, Stop)])
  ++ (if c_es cf then (if i_sa i then [] else [(WInfraCreate ISa, Stop)]) ++ (if i_role i then [] else [(WInfraCreate IRole, Stop)])
                      ++ (if i_rb i then [] else [(WInfraCreate IRb, Stop)]) else [])
  ++ (match i_dep i with None => [(WInfraCreate IDep, Stop)] | Some _ => [] end).

(* result: pending writes and the RPCs issued (in order) *)
Definition plan_sug (w : world) (resp : sresp) : pending * list rpc :=
  let cf := w_cfg w in
  match c_sug w with
  | None => ([], [])
  | Some s =>
      let st := s_st s in
      if s_is st SSucceeded then
        ((match i_dep (w_infra w) with Some _ => [(WInfraDelete IDep, Stop)] | None => [] end)
         ++ (if i_svc (w_infra w) then [(WInfraDelete ISvc, Stop)] else []), [])
      else if negb (s_is st SCreated) then (sstatus_write s (s_with_conds st (mark (ss_conds st) SCreated RCreated)), [])
      else
        let creates := infra_creates cf (w_infra w) in
        match i_dep (w_infra w) with
        | None | Some false =>
            (creates ++ sstatus_write s (s_with_conds st (set_cond (ss_conds st) SDeploymentReady CFalse RDeploymentNotReady)), [])
        | Some true =>
            let cs1 := set_cond (ss_conds st) SDeploymentReady CTrue RDeploymentReady in
            match c_exp w with
            | None => (creates ++ sstatus_write_conds s cs1, [])          (* Get experiment: NotFound -> error path *)
            | Some _ =>
                let ts := c_trials w in
                (* validation when not running *)
                let '(cs2, rpcs1, failed) :=
                  if has_cond cs1 SRunning then (cs1, [], false)
                  else if negb (r_valid resp) then (smark_failed cs1, [RpcValidate], true)
                  else if c_es cf && negb (r_esvalid resp) then (smark_failed cs1, [RpcValidate; RpcValidateES], true)
                  else (smark_running cs1 CTrue RRunning, (if c_es cf then [RpcValidate; RpcValidateES] else [RpcValidate]), false) in
                if failed then (creates ++ sstatus_write s (s_with_conds st cs2), rpcs1)
                else
                  let n := s_requests s - ss_count st in
                  if n <=? 0 then (creates ++ sstatus_write s (s_with_conds st cs2), rpcs1)
                  else
                    let sent := convert_filter ts in
                    let rpcs2 := rpcs1 ++ [RpcGetSuggestions n (s_requests s) sent] in
                    match r_reply resp with
                    | ReplyErr => (creates ++ sstatus_write_conds s cs2, rpcs2)
                    | ReplyOk names settings =>
                        if negb (Z.of_nat (length names) =? n) then (creates ++ sstatus_write_conds s cs2, rpcs2)
                        else if c_es cf && negb (r_esrules resp) then (creates ++ sstatus_write_conds s cs2, rpcs2 ++ [RpcGetESRules sent])
                        else
                          let names' := ss_names st ++ names in
                          (creates ++ sstatus_write s {| ss_names := names'; ss_count := Z.of_nat (length names'); ss_conds := cs2;
                                                          ss_settings := match settings with Some x => x | None => ss_settings st end |},
                           if c_es cf then rpcs2 ++ [RpcGetESRules sent] else rpcs2)
                    end
            end
        end
  end.

(* ------------------------------------------------------------------ planning: trial controller *)

Definition find_trial (n : nat) (ts : list trial) : option trial := find (fun t => Nat.eqb (t_name t) n) ts.
Definition find_job (n : nat) (js : list job) : option job := find (fun j => Nat.eqb (j_name j) n) js.
Definition db_get (n : nat) (db : list (nat * option Z)) : option (option Z) :=
  match find (fun p => Nat.eqb (fst p) n) db with Some p => Some (snd p) | None => None end.

(* the metrics collector reports: the first report creates the entry of the trial (with or without an objective value); a later
   report can only add the objective value to an entry that has none yet (metrics arrive progressively) *)
Definition metrics_db (t : nat) (v : option Z) (db : list (nat * option Z)) : list (nat * option Z) :=
  match db_get t db with
  | None => db ++ [(t, v)]
  | Some None => match v with
                 | Some z => map (fun p => if Nat.eqb (fst p) t then (t, Some z) else p) db
                 | None => db
                 end
  | Some (Some _) => db
  end.

Inductive jstatus := JSFailed | JSSucceeded | JSRunning.

Definition trial_status_write (t : trial) (cs : conds) (o : obs) (ct : option nat) : pending :=
  if conds_eqb (t_conds t) cs && obs_eqb (t_obs t) o && optnat_eqb (t_ctime t) ct then []
  else [(WTrialStatus (t_name t) cs o ct (t_rv t), Stop)].

(* UpdateTrialStatusCondition; returns DB effect (push collector), new conditions, completion stamp *)
Definition update_trial_condition (cf : cfg) (now : nat) (t : trial) (o : obs) (js : jstatus) : pending * conds * option nat :=
  let cs := t_conds t in
  let is k := has_cond cs k in
  match js with
  | JSSucceeded =>
      if obs_available o && negb (is TSucceeded) then
        if negb (is TEarlyStopped) then ([], tmark_off_and cs TSucceeded RSucceeded, Some now) else ([], cs, t_ctime t)
      else if negb (is TMetricsUnavailable) then
        ((if c_push cf then [(WDbReportUnavailable (t_name t), Stop)] else []),
         tmark_off_and cs TMetricsUnavailable RMetricsUnavailable, Some now)
      else ([], cs, t_ctime t)
  | JSFailed =>
      if negb (is TFailed) && negb (is TEarlyStopped) then ([], tmark_off_and cs TFailed RFailed, Some now) else ([], cs, t_ctime t)
  | JSRunning =>
      if negb (is TRunning) && negb (is TEarlyStopped) then ([], mark cs TRunning RRunning, t_ctime t) else ([], cs, t_ctime t)
  end.

(* reconcileTrial for a created trial that needs no finalizer change *)
Definition plan_trial_main (w : world) (t : trial) (dberr : bool) : pending :=
  let cf := w_cfg w in
  let key := t_name t in
  (* reconcileJob: live read of the job *)
  let '(jw, deployed) :=
    match find_job key (w_jobs w) with
    | None => if t_completed t then ([], None) else ([(WJobCreate key, Stop)], Some JActive)
    | Some j => if t_completed t && negb (c_retain cf) then ([(WJobDelete key, Stop)], None) else ([], Some (j_phase j))
    end in
  match deployed with
  | None =>
      (* job gone: an early-stopped trial still refreshes its observation (fix of F3) *)
      if t_is t TEarlyStopped && negb (t_obs_available t) then
        if dberr then jw
        else let o := match db_get key (w_db w) with Some v => Some v | None => t_obs t end in
             jw ++ trial_status_write t (t_conds t) o (t_ctime t)
      else jw
  | Some ph =>
      if negb (t_completed t) || t_is t TEarlyStopped then
        let js := match ph with
                  | JFail => Some JSFailed
                  | JSucc => Some JSSucceeded
                  | JActive => if negb (t_is t TRunning) then Some JSRunning else None
                  end in
        match js with
        | None => jw
        | Some js =>
            let need_obs := match js with JSSucceeded => true | _ => t_is t TEarlyStopped end in
            if need_obs && dberr then jw
            else
              let o := if need_obs then match db_get key (w_db w) with Some v => Some v | None => t_obs t end else t_obs t in
              if match js with JSSucceeded => true | _ => false end && match o with None => true | Some _ => false end && negb (c_push cf)
              then jw                                   (* errMetricsNotReported: requeue, no status write *)
              else
                let '(dbw, cs, ct) := update_trial_condition cf (w_clock w) t o js in
                jw ++ dbw ++ trial_status_write t cs o ct
        end
      else jw
  end.

Definition plan_trial (w : world) (key : nat) (dberr : bool) : pending :=
  match find_trial key (c_trials w) with
  | None => []
  | Some t =>
      if negb (t_deleting t) && negb (t_fin t) then [(WTrialFin key true (t_rv t), Stop)]
      else if t_deleting t && t_fin t then [(WDbDelete key, Stop); (WTrialFin key false (t_rv t), Stop)]
      else if negb (t_is t TCreated) then trial_status_write t (mark (t_conds t) TCreated RCreated) (t_obs t) (t_ctime t)
      else plan_trial_main w t dberr
  end.

(* ------------------------------------------------------------------ applying writes to the store *)

Definition set_infra (i : infra) (k : ikind) (present : bool) : infra :=
  match k with
  | IDep => {| i_dep := if present then Some false else None; i_svc := i_svc i; i_pvc := i_pvc i; i_sa := i_sa i; i_role := i_role i; i_rb := i_rb i |}
  | ISvc => {| i_dep := i_dep i; i_svc := present; i_pvc := i_pvc i; i_sa := i_sa i; i_role := i_role i; i_rb := i_rb i |}
  | IPvc => {| i_dep := i_dep i; i_svc := i_svc i; i_pvc := present; i_sa := i_sa i; i_role := i_role i; i_rb := i_rb i |}
  | ISa => {| i_dep := i_dep i; i_svc := i_svc i; i_pvc := i_pvc i; i_sa := present; i_role := i_role i; i_rb := i_rb i |}
  | IRole => {| i_dep := i_dep i; i_svc := i_svc i; i_pvc := i_pvc i; i_sa := i_sa i; i_role := present; i_rb := i_rb i |}
  | IRb => {| i_dep := i_dep i; i_svc := i_svc i; i_pvc := i_pvc i; i_sa := i_sa i; i_role := i_role i; i_rb := present |}
  end.

Definition infra_has (i : infra) (k : ikind) : bool :=
  match k with
  | IDep => match i_dep i with Some _ => true | None => false end
  | ISvc => i_svc i | IPvc => i_pvc i | ISa => i_sa i | IRole => i_role i | IRb => i_rb i
  end.

Definition new_trial (n : nat) : trial :=
  {| t_name := n; t_conds := []; t_obs := None; t_ctime := None; t_fin := false; t_deleting := false; t_rv := 1%nat |}.

Definition upd_trial (n : nat) (f : trial -> trial) (ts : list trial) : list trial :=
  map (fun t => if Nat.eqb (t_name t) n then f t else t) ts.

(* record update helpers for the world (explicit, no library) *)
Definition set_store (w : world) (e : option expobj) (s : option sugobj) (ts : list trial) (js : list job) (i : infra)
  (db : list (nat * option Z)) : world :=
  {| w_cfg := w_cfg w; w_exp := e; w_sug := s; w_trials := ts; w_jobs := js; w_infra := i; w_db := db;
     c_exp := c_exp w; c_sug := c_sug w; c_trials := c_trials w; p_exp := p_exp w; p_sug := p_sug w; p_trial := p_trial w;
     w_clock := w_clock w; g_maxreq := g_maxreq w; g_rpcs := g_rpcs w; g_jobcreates := g_jobcreates w;
     g_jobdeletes := g_jobdeletes w; g_dbdeletes := g_dbdeletes w; g_finreleased := g_finreleased w; g_writes := g_writes w |}.

Definition set_exp (w : world) (e : option expobj) := set_store w e (w_sug w) (w_trials w) (w_jobs w) (w_infra w) (w_db w).
Definition set_sug (w : world) (s : option sugobj) := set_store w (w_exp w) s (w_trials w) (w_jobs w) (w_infra w) (w_db w).
Definition set_trials (w : world) (ts : list trial) := set_store w (w_exp w) (w_sug w) ts (w_jobs w) (w_infra w) (w_db w).
Definition set_jobs (w : world) (js : list job) := set_store w (w_exp w) (w_sug w) (w_trials w) js (w_infra w) (w_db w).
Definition set_infra_w (w : world) (i : infra) := set_store w (w_exp w) (w_sug w) (w_trials w) (w_jobs w) i (w_db w).
Definition set_db (w : world) (db : list (nat * option Z)) := set_store w (w_exp w) (w_sug w) (w_trials w) (w_jobs w) (w_infra w) db.

Definition set_ghost (w : world) (mr : Z) (rp : list rpc) (jc jd dd fr : list nat) (nw : nat) : world :=
  {| w_cfg := w_cfg w; w_exp := w_exp w; w_sug := w_sug w; w_trials := w_trials w; w_jobs := w_jobs w; w_infra := w_infra w;
     w_db := w_db w; c_exp := c_exp w; c_sug := c_sug w; c_trials := c_trials w; p_exp := p_exp w; p_sug := p_sug w;
     p_trial := p_trial w; w_clock := w_clock w; g_maxreq := mr; g_rpcs := rp; g_jobcreates := jc; g_jobdeletes := jd;
     g_dbdeletes := dd; g_finreleased := fr; g_writes := nw |}.

Definition set_pending (w : world) (c : ctl) (p : pending) : world :=
  {| w_cfg := w_cfg w; w_exp := w_exp w; w_sug := w_sug w; w_trials := w_trials w; w_jobs := w_jobs w; w_infra := w_infra w;
     w_db := w_db w; c_exp := c_exp w; c_sug := c_sug w; c_trials := c_trials w;
     p_exp := match c with CExp => p | _ => p_exp w end;
     p_sug := match c with CSug => p | _ => p_sug w end;
     p_trial := match c with CTrial => p | _ => p_trial w end;
     w_clock := w_clock w; g_maxreq := g_maxreq w; g_rpcs := g_rpcs w; g_jobcreates := g_jobcreates w;
     g_jobdeletes := g_jobdeletes w; g_dbdeletes := g_dbdeletes w; g_finreleased := g_finreleased w; g_writes := g_writes w |}.

Definition set_caches (w : world) (ce : option expobj) (cs : option sugobj) (ct : list trial) : world :=
  {| w_cfg := w_cfg w; w_exp := w_exp w; w_sug := w_sug w; w_trials := w_trials w; w_jobs := w_jobs w; w_infra := w_infra w;
     w_db := w_db w; c_exp := ce; c_sug := cs; c_trials := ct; p_exp := p_exp w; p_sug := p_sug w; p_trial := p_trial w;
     w_clock := w_clock w; g_maxreq := g_maxreq w; g_rpcs := g_rpcs w; g_jobcreates := g_jobcreates w;
     g_jobdeletes := g_jobdeletes w; g_dbdeletes := g_dbdeletes w; g_finreleased := g_finreleased w; g_writes := g_writes w |}.

Definition tick (w : world) : world :=
  {| w_cfg := w_cfg w; w_exp := w_exp w; w_sug := w_sug w; w_trials := w_trials w; w_jobs := w_jobs w; w_infra := w_infra w;
     w_db := w_db w; c_exp := c_exp w; c_sug := c_sug w; c_trials := c_trials w; p_exp := p_exp w; p_sug := p_sug w;
     p_trial := p_trial w; w_clock := S (w_clock w); g_maxreq := g_maxreq w; g_rpcs := g_rpcs w; g_jobcreates := g_jobcreates w;
     g_jobdeletes := g_jobdeletes w; g_dbdeletes := g_dbdeletes w; g_finreleased := g_finreleased w; g_writes := g_writes w |}.

Definition pending_of (w : world) (c : ctl) : pending :=
  match c with CExp => p_exp w | CSug => p_sug w | CTrial => p_trial w end.

(* apply one write; [None] = the API server (or DB manager) refused it *)
Definition apply_write (w : world) (wr : write) : option world :=
  match wr with
  | WExpFin add rv =>
      match w_exp w with
      | Some e => if Nat.eqb (e_rv e) rv then
                    if negb add && e_deleting e then Some (set_exp w None)      (* last finalizer released: object goes away *)
                    else Some (set_exp w (Some {| e_max := e_max e; e_fin := add; e_deleting := e_deleting e; e_st := e_st e; e_rv := S (e_rv e) |}))
                  else None
      | None => None
      end
  | WExpStatus st rv =>
      match w_exp w with
      | Some e => if Nat.eqb (e_rv e) rv then
                    Some (set_exp w (Some {| e_max := e_max e; e_fin := e_fin e; e_deleting := e_deleting e; e_st := st; e_rv := S (e_rv e) |}))
                  else None
      | None => None
      end
  | WSugCreate r =>
      match w_sug w with
      | Some _ => None                                                            (* AlreadyExists *)
      | None =>
          let s := {| s_requests := r; s_st := {| ss_names := []; ss_count := 0; ss_conds := []; ss_settings := 0%nat |}; s_rv := 1%nat |} in
          let w1 := set_sug w (Some s) in
          Some (set_ghost w1 (Z.max (g_maxreq w) r) (g_rpcs w1) (g_jobcreates w1) (g_jobdeletes w1) (g_dbdeletes w1) (g_finreleased w1) (g_writes w1))
      end
  | WSugSpec r rv =>
      match w_sug w with
      | Some s => if Nat.eqb (s_rv s) rv then
                    let w1 := set_sug w (Some {| s_requests := r; s_st := s_st s; s_rv := S (s_rv s) |}) in
                    Some (set_ghost w1 (Z.max (g_maxreq w) r) (g_rpcs w1) (g_jobcreates w1) (g_jobdeletes w1) (g_dbdeletes w1) (g_finreleased w1) (g_writes w1))
                  else None
      | None => None
      end
  | WSugStatus st rv =>
      match w_sug w with
      | Some s => if Nat.eqb (s_rv s) rv then Some (set_sug w (Some {| s_requests := s_requests s; s_st := st; s_rv := S (s_rv s) |})) else None
      | None => None
      end
  | WTrialCreate n =>
      match w_exp w with
      | None => None                                   (* owner gone: not modelled further *)
      | Some _ =>
          match find_trial n (w_trials w) with
          | Some _ => None                                                          (* AlreadyExists *)
          | None => Some (set_trials w (w_trials w ++ [new_trial n]))
          end
      end
  | WTrialFin n add rv =>
      match find_trial n (w_trials w) with
      | Some t => if Nat.eqb (t_rv t) rv then
                    if negb add && t_deleting t then
                      let w1 := set_trials w (filter (fun x => negb (Nat.eqb (t_name x) n)) (w_trials w)) in
                      Some (set_ghost w1 (g_maxreq w1) (g_rpcs w1) (g_jobcreates w1) (g_jobdeletes w1) (g_dbdeletes w1) (g_finreleased w1 ++ [n]) (g_writes w1))
                    else Some (set_trials w (upd_trial n (fun t => {| t_name := t_name t; t_conds := t_conds t; t_obs := t_obs t; t_ctime := t_ctime t;
                                                                       t_fin := add; t_deleting := t_deleting t; t_rv := S (t_rv t) |}) (w_trials w)))
                  else None
      | None => None
      end
  | WTrialStatus n cs o ct rv =>
      match find_trial n (w_trials w) with
      | Some t => if Nat.eqb (t_rv t) rv then
                    Some (set_trials w (upd_trial n (fun t => {| t_name := t_name t; t_conds := cs; t_obs := o; t_ctime := ct;
                                                                  t_fin := t_fin t; t_deleting := t_deleting t; t_rv := S (t_rv t) |}) (w_trials w)))
                  else None
      | None => None
      end
  | WJobCreate n =>
      match find_job n (w_jobs w) with
      | Some _ => None
      | None => let w1 := set_jobs w (w_jobs w ++ [{| j_name := n; j_phase := JActive |}]) in
                Some (set_ghost w1 (g_maxreq w1) (g_rpcs w1) (g_jobcreates w1 ++ [n]) (g_jobdeletes w1) (g_dbdeletes w1) (g_finreleased w1) (g_writes w1))
      end
  | WJobDelete n =>
      match find_job n (w_jobs w) with
      | None => None
      | Some _ => let w1 := set_jobs w (filter (fun j => negb (Nat.eqb (j_name j) n)) (w_jobs w)) in
                  Some (set_ghost w1 (g_maxreq w1) (g_rpcs w1) (g_jobcreates w1) (g_jobdeletes w1 ++ [n]) (g_dbdeletes w1) (g_finreleased w1) (g_writes w1))
      end
  | WInfraCreate k => if infra_has (w_infra w) k then None else Some (set_infra_w w (set_infra (w_infra w) k true))
  | WInfraDelete k => if infra_has (w_infra w) k then Some (set_infra_w w (set_infra (w_infra w) k false)) else None
  | WDbDelete n =>
      let w1 := set_db w (filter (fun p => negb (Nat.eqb (fst p) n)) (w_db w)) in
      Some (set_ghost w1 (g_maxreq w1) (g_rpcs w1) (g_jobcreates w1) (g_jobdeletes w1) (g_dbdeletes w1 ++ [n]) (g_finreleased w1) (g_writes w1))
  | WDbReportUnavailable n =>
      Some (set_db w (match db_get n (w_db w) with Some _ => w_db w | None => w_db w ++ [(n, None)] end))
  | WDeleteTrials => None
  end.

Definition count_write (w : world) : world :=
  set_ghost w (g_maxreq w) (g_rpcs w) (g_jobcreates w) (g_jobdeletes w) (g_dbdeletes w) (g_finreleased w) (S (g_writes w)).

(* ------------------------------------------------------------------ the step function *)

Definition step (w : world) (a : action) : world :=
  match a with
  | Begin c key resp dberr =>
      match pending_of w c with
      | _ :: _ => w
      | [] =>
          match c with
          | CExp => tick (set_pending w CExp (plan_exp w))
          | CSug => let '(p, rpcs) := plan_sug w resp in
                    let w1 := set_pending w CSug p in
                    tick (set_ghost w1 (g_maxreq w1) (g_rpcs w1 ++ rpcs) (g_jobcreates w1) (g_jobdeletes w1) (g_dbdeletes w1) (g_finreleased w1) (g_writes w1))
          | CTrial => tick (set_pending w CTrial (plan_trial w key dberr))
          end
      end
  | Write c inj =>
      match pending_of w c with
      | [] => w
      | (wr, onf) :: rest =>
          let w0 := count_write w in
          match (if inj then None else apply_write w0 wr) with
          | Some w1 => set_pending w1 c rest
          | None => set_pending w0 c (match onf with Stop => [] | Cont => rest end)
          end
      end
  | Abort c => set_pending w c []
  | JobDone t ok =>
      set_jobs w (map (fun j => if Nat.eqb (j_name j) t then
                                   match j_phase j with JActive => {| j_name := j_name j; j_phase := if ok then JSucc else JFail |} | _ => j end
                                 else j) (w_jobs w))
  | JobGone t => set_jobs w (filter (fun j => negb (Nat.eqb (j_name j) t)) (w_jobs w))
  | Metrics t v =>
      match find_trial t (w_trials w) with
      | Some _ => set_db w (metrics_db t v (w_db w))
      | None => w
      end
  | EarlyStop t v =>
      match find_trial t (w_trials w) with
      | Some tr =>
          (* the stop comes from the metrics collector inside the trial's run object: the run object exists *)
          if c_es (w_cfg w) && t_is tr TCreated && negb (t_completed tr) && negb (t_deleting tr) &&
             match find_job t (w_jobs w) with Some _ => true | None => false end then
            let w1 := match v, db_get t (w_db w) with Some z, None => set_db w (w_db w ++ [(t, Some z)]) | _, _ => w end in
            set_trials w1 (upd_trial t (fun x => {| t_name := t_name x; t_conds := t_conds x ++ [{| ctype := TEarlyStopped; cstat := CTrue; creason := REarlyStopped |}];
                                                    t_obs := t_obs x; t_ctime := t_ctime x; t_fin := t_fin x; t_deleting := t_deleting x;
                                                    t_rv := S (t_rv x) |}) (w_trials w1))
          else w
      | None => w
      end
  | DeployAvailable b =>
      match i_dep (w_infra w) with
      | Some _ => set_infra_w w {| i_dep := Some b; i_svc := i_svc (w_infra w); i_pvc := i_pvc (w_infra w); i_sa := i_sa (w_infra w);
                                   i_role := i_role (w_infra w); i_rb := i_rb (w_infra w) |}
      | None => w
      end
  | SyncExp => set_caches w (w_exp w) (c_sug w) (c_trials w)
  | SyncSug => set_caches w (c_exp w) (w_sug w) (c_trials w)
  | SyncTrials => set_caches w (c_exp w) (c_sug w) (w_trials w)
  | UserRaiseMax n =>
      match w_exp w with
      | Some e => match e_max e with
                  | Some m => if (m <? n) && negb (e_deleting e) &&
                                 (negb (e_completed (e_st e)) || restartable (w_cfg w) (e_st e)) (* the update rule of the validating webhook, C15 *)
                              then
                                set_exp w (Some {| e_max := Some n; e_fin := e_fin e; e_deleting := e_deleting e; e_st := e_st e; e_rv := S (e_rv e) |})
                              else w
                  | None => w
                  end
      | None => w
      end
  | DeleteExperiment =>
      match w_exp w with
      | Some e => if e_fin e then set_exp w (Some {| e_max := e_max e; e_fin := true; e_deleting := true; e_st := e_st e; e_rv := S (e_rv e) |})
                  else set_exp w None
      | None => w
      end
  | GcTrial t =>
      match w_exp w, find_trial t (w_trials w) with
      | None, Some tr =>
          if t_fin tr then set_trials w (upd_trial t (fun x => {| t_name := t_name x; t_conds := t_conds x; t_obs := t_obs x; t_ctime := t_ctime x;
                                                                    t_fin := true; t_deleting := true; t_rv := if t_deleting x then t_rv x else S (t_rv x) |}) (w_trials w))
          else set_trials w (filter (fun x => negb (Nat.eqb (t_name x) t)) (w_trials w))
      | _, _ => w
      end
  end.

Definition run (c : cfg) (acts : list action) : world := fold_left step acts (init c).

(* all states along a run, oldest first, including the initial one *)
Fixpoint trace_from (w : world) (acts : list action) : list world :=
  match acts with
  | [] => [w]
  | a :: r => w :: trace_from (step w a) r
  end.
Definition trace (c : cfg) (acts : list action) : list world := trace_from (init c) acts.

(* what the defaulting + validating webhooks guarantee about the budget fields (C14) *)
Definition valid_cfg (c : cfg) : Prop :=
  1 <= c_par c /\ match c_max c with Some m => c_par c <= m | None => True end /\
  match c_maxfailed c, c_max c with Some f, Some m => 0 <= f <= m | Some f, None => 0 <= f | None, _ => True end.
