(* C19 — executable model of the observation-log storage of the DB manager.

   Transcribed from
     pkg/db/v1beta1/mysql/mysql.go        dbConn.RegisterObservationLog / GetObservationLog / DeleteObservationLog
     pkg/db/v1beta1/postgres/postgres.go  the same three methods
     cmd/db-manager/v1beta1/main.go       server.ReportObservationLog / GetObservationLog / DeleteObservationLog

   The SQL text is a real [string], assembled exactly as the Go code assembles it (literals, "?" vs "$n"
   placeholders, one VALUES group per timestamped entry, the optional filters, the final strip of one byte).
   Every other string of a request (trial name, metric name, value, formatted time) is an opaque [nat]
   identifier interned by the harness: equal identifiers <-> equal Go strings.

   Not modelled (supplied by the harness inside the case):
     time.Parse(time.RFC3339Nano, s) and t.UTC().Format(layout): a time stamp arrives as
       TsEmpty            the Go string ""
       TsBad              a non-empty string that time.Parse rejects
       TsGood id          a string that parses; [id] is the identifier of t.UTC().Format(<layout of the dialect>)
     database/sql and the driver: the model returns the calls made on *sql.DB / *sql.Stmt, not their effect.
     The rows scanned back by GetObservationLog (the property is about what is SENT to the database).

   Sub-messages of a protobuf request are pointers and may be nil: [option].
   The DB layer ([register]) is modelled as the code IS, including the three nil dereferences (Crash 1..3).
   The gRPC handler of a report ([report]) is modelled as REPAIRED (finding F10, key nil-submessage): it
   validates the sub-messages and answers InvalidArgument (Err 10) before calling the DB layer; on the
   unchanged tree the handler calls the DB layer directly ([report_unrepaired]). *)
From KV Require Export Base.Prelude.
From Coq Require Import DecimalString.
Local Open Scope string_scope.

Inductive dialect := Mysql | Postgres.

Inductive tstamp := TsEmpty | TsBad | TsGood (formatted : nat).

Record metric := { m_name : nat; m_value : nat }.
Record entry := { e_ts : tstamp; e_metric : option metric }.   (* *MetricLog: TimeStamp, Metric *)
Definition obslog := list (option entry).                        (* ObservationLog.MetricLogs ([]*MetricLog) *)

(* which database/sql entry point carried the text *)
Inductive call := CPrepare | CStmtExec | CExec | CQuery.
Definition stmt := (call * string * list nat)%type.              (* entry point, SQL text, bound arguments *)

(* strconv / fmt "%d" of a non-negative int *)
Definition dec (n : nat) : string := NilZero.string_of_uint (Nat.to_uint n).

(* s[0 : len(s)-1]; Go would panic on the empty string, which cannot arise here: the head literal is not empty *)
Fixpoint drop_last (s : string) : string :=
  match s with
  | EmptyString => EmptyString
  | String c EmptyString => EmptyString
  | String c r => String c (drop_last r)
  end.

(* ---------------------------------------------------------------- RegisterObservationLog *)

Definition insert_head : string := "INSERT INTO observation_logs (trial_name, time, metric_name, value) VALUES ".

(* mysql: sqlQuery += "(?, ?, ?, ?),"
   postgres: statement += fmt.Sprintf("($%d, $%d, $%d, $%d),", i, i+1, i+2, i+3) with i = index_of_qparam *)
Definition group (d : dialect) (i : nat) : string :=
  match d with
  | Mysql => "(?, ?, ?, ?),"
  | Postgres => "($" ++ dec i ++ ", $" ++ dec (i + 1) ++ ", $" ++ dec (i + 2) ++ ", $" ++ dec (i + 3) ++ "),"
  end.

Record acc := { a_text : string; a_args : list nat; a_idx : nat }.

(* the body of `for _, mlog := range observationLog.MetricLogs` *)
Fixpoint reg_loop (d : dialect) (trial : nat) (l : obslog) (a : acc) : outcome acc :=
  match l with
  | [] => Ok a
  | None :: _ => Crash 2                                   (* mlog.TimeStamp with mlog == nil *)
  | Some e :: r =>
      match e_ts e with
      | TsEmpty => reg_loop d trial r a                    (* continue *)
      | TsBad => Err 1                                     (* "Error parsing start time" *)
      | TsGood t =>
          match e_metric e with
          | None => Crash 3                                (* mlog.Metric.Name with mlog.Metric == nil *)
          | Some m =>
              reg_loop d trial r {| a_text := a_text a ++ group d (a_idx a);
                                    a_args := (a_args a ++ [trial; t; m_name m; m_value m])%list;
                                    a_idx := a_idx a + 4 |}
          end
      end
  end.

Definition acc0 : acc := {| a_text := insert_head; a_args := []; a_idx := 1 |}.

Definition register (d : dialect) (trial : nat) (log : option obslog) : outcome (list stmt) :=
  match log with
  | None => Crash 1                                        (* observationLog.MetricLogs with observationLog == nil *)
  | Some l =>
      match reg_loop d trial l acc0 with
      | Ok a => let t := drop_last (a_text a) in
                Ok [(CPrepare, t, []); (CStmtExec, t, a_args a)]   (* d.db.Prepare(t); stmt.Exec(values...) *)
      | Err c => Err c
      | Crash s => Crash s
      end
  end.

(* ---------------------------------------------------------------- GetObservationLog *)

Record get_req := { g_trial : nat; g_metric : option nat (* None = "" *); g_start : tstamp; g_end : tstamp }.

(* the placeholder of the i-th bound value: "?" (mysql) / fmt.Sprintf("$%d", i) (postgres) *)
Definition ph (d : dialect) (i : nat) : string := match d with Mysql => "?" | Postgres => "$" ++ dec i end.

Definition select_head (d : dialect) : string :=
  "SELECT time, metric_name, value FROM observation_logs WHERE trial_name = " ++ ph d 1.

(* one optional filter: qstr += clause+placeholder; qfield = append(qfield, v); index_of_qparam += 1
   (mysql has no counter; the postgres code leaves the last increment commented out, which is unobservable) *)
Definition add_filter (d : dialect) (clause : string) (v : option nat) (st : string * list nat * nat)
  : string * list nat * nat :=
  match v with
  | None => st
  | Some x => let '(qstr, qfield, idx) := st in (qstr ++ clause ++ ph d idx, (qfield ++ [x])%list, idx + 1)
  end.

Definition ts_value (t : tstamp) : option nat := match t with TsGood x => Some x | _ => None end.

Definition get_log (d : dialect) (g : get_req) : outcome (list stmt) :=
  let st := add_filter d " AND metric_name = " (g_metric g) ("", [g_trial g], 2) in
  match g_start g with
  | TsBad => Err 1                                         (* "Error parsing start time" *)
  | _ =>
    let st := add_filter d " AND time >= " (ts_value (g_start g)) st in
    match g_end g with
    | TsBad => Err 2                                       (* "Error parsing completion time" *)
    | _ =>
      let '(qstr, qfield, _) := add_filter d " AND time <= " (ts_value (g_end g)) st in
      Ok [(CQuery, select_head d ++ qstr ++ " ORDER BY time", qfield)]
    end
  end.

(* ---------------------------------------------------------------- DeleteObservationLog *)

Definition delete_log (d : dialect) (trial : nat) : outcome (list stmt) :=
  Ok [(CExec, "DELETE FROM observation_logs WHERE trial_name = " ++ ph d 1, [trial])].

(* ---------------------------------------------------------------- the gRPC handlers (cmd/db-manager) *)

Record report_req := { r_trial : nat; r_log : option obslog }.

(* REPAIRED handler: InvalidArgument for a missing observation_log, a nil list entry or an entry without metric *)
Definition invalid_argument : nat := 10.

Definition entry_present (o : option entry) : bool :=
  match o with Some e => match e_metric e with Some _ => true | None => false end | None => false end.

Definition validate (log : option obslog) : bool :=
  match log with None => false | Some l => forallb entry_present l end.

Definition report (d : dialect) (r : report_req) : outcome (list stmt) :=
  if validate (r_log r) then register d (r_trial r) (r_log r) else Err invalid_argument.

(* the handler of the unchanged tree: dbIf.RegisterObservationLog(in.TrialName, in.ObservationLog) *)
Definition report_unrepaired (d : dialect) (r : report_req) : outcome (list stmt) :=
  register d (r_trial r) (r_log r).

(* ---------------------------------------------------------------- requests, entry levels, shapes *)

Inductive request := RReport (r : report_req) | RGet (g : get_req) | RDelete (trial : nat).

Inductive level := LDb | LHandler.     (* the DB layer called directly / through the gRPC handler of package main *)

Definition run_op (lv : level) (d : dialect) (q : request) : outcome (list stmt) :=
  match q with
  | RReport r => match lv with LDb => register d (r_trial r) (r_log r) | LHandler => report d r end
  | RGet g => get_log d g
  | RDelete t => delete_log d t
  end.

(* The shape of a request: the number of timestamped entries / which filters are non-empty. *)
Inductive shape := ShReport (k : nat) | ShGet (m s e : bool) | ShDelete.

Definition timestamped_entry (o : option entry) : bool :=
  match o with Some e => match e_ts e with TsEmpty => false | _ => true end | None => false end.

Definition ts_present (t : tstamp) : bool := match t with TsEmpty => false | _ => true end.

Definition shape_of (q : request) : shape :=
  match q with
  | RReport r => ShReport (match r_log r with None => 0 | Some l => length (filter timestamped_entry l) end)
  | RGet g => ShGet (match g_metric g with Some _ => true | None => false end) (ts_present (g_start g)) (ts_present (g_end g))
  | RDelete _ => ShDelete
  end.

Definition issued (o : outcome (list stmt)) : list stmt := match o with Ok s => s | _ => [] end.
Definition call_text (s : stmt) : call * string := fst s.
Definition stmt_args (s : stmt) : list nat := snd s.

(* ---------------------------------------------------------------- vocabulary of the property statement
   (functions of the REQUEST alone; used by the theorems and by the monitor that runs on implementation outputs) *)

Definition is_bad (t : tstamp) : bool := match t with TsBad => true | _ => false end.

(* a missing sub-message: nil list entry or entry without metric (a missing observation_log is tested separately) *)
Definition entry_nil_sub (o : option entry) : bool :=
  match o with None => true | Some e => match e_metric e with None => true | Some _ => false end end.

Definition has_nil (q : request) : bool :=
  match q with
  | RReport r => match r_log r with None => true | Some l => existsb entry_nil_sub l end
  | _ => false
  end.

(* an entry for which no row can be built: nil, unparsable time, or timestamped without metric *)
Definition entry_must_err (o : option entry) : bool :=
  match o with
  | None => true
  | Some e => match e_ts e with
              | TsBad => true
              | TsGood _ => match e_metric e with None => true | Some _ => false end
              | TsEmpty => false
              end
  end.

(* requests that cannot be served: the answer must be an error *)
Definition must_err (q : request) : bool :=
  match q with
  | RReport r => match r_log r with None => true | Some l => existsb entry_must_err l end
  | RGet g => is_bad (g_start g) || is_bad (g_end g)
  | RDelete _ => false
  end.

(* the bound values the property prescribes, from the request alone *)
Definition entry_row (trial : nat) (o : option entry) : list nat :=
  match o with
  | Some e => match e_ts e, e_metric e with
              | TsGood t, Some m => [trial; t; m_name m; m_value m]
              | _, _ => []
              end
  | None => []
  end.

Definition opt_list (o : option nat) : list nat := match o with Some x => [x] | None => [] end.

Definition expected_args (q : request) : list nat :=
  match q with
  | RReport r => match r_log r with Some l => flat_map (entry_row (r_trial r)) l | None => [] end
  | RGet g => [g_trial g] ++ opt_list (g_metric g) ++ opt_list (ts_value (g_start g)) ++ opt_list (ts_value (g_end g))
  | RDelete t => [t]
  end.

(* number of placeholders of a text: "?" (mysql) / "$" (postgres) *)
Fixpoint count_char (c : ascii) (s : string) : nat :=
  match s with
  | EmptyString => 0
  | String a r => (if Ascii.eqb a c then 1 else 0) + count_char c r
  end.

Definition ph_char (d : dialect) : ascii := match d with Mysql => "?"%char | Postgres => "$"%char end.

