(* Model of ReconcileExperiment.getTrialInstance (pkg/controller.v1beta1/experiment/experiment_controller_util.go)
   and util.TrialLabels (pkg/controller.v1beta1/util/labels.go) as a record-to-record function.
   Strings and opaque sub-objects (objective, metrics collector spec, early-stopping rules, parameter values) are
   interned by the harness as naturals; id 0 is the empty string.  The manifest generator is an argument. *)
From KV Require Import Base.Prelude.

Definition nmap := list (nat * nat).

Fixpoint nlookup (k : nat) (m : nmap) : option nat :=
  match m with
  | [] => None
  | (k', v) :: m' => if Nat.eqb k k' then Some v else nlookup k m'
  end.

Fixpoint nset (k v : nat) (m : nmap) : nmap :=
  match m with
  | [] => [(k, v)]
  | (k', w) :: m' => if Nat.eqb k k' then (k', v) :: m' else (k', w) :: nset k v m'
  end.

(* for k, v := range src { dst[k] = v } *)
Definition overlay (dst src : nmap) : nmap := fold_left (fun m kv => nset (fst kv) (snd kv) m) src dst.

(* fixed ids agreed with the harness *)
Definition label_experiment : nat := 1.     (* consts.LabelExperimentName = "katib.kubeflow.org/experiment" *)
Definition kind_experiment : nat := 2.      (* "Experiment" *)
Definition apiv_experiment : nat := 3.      (* "kubeflow.org/v1beta1" *)

Record owner_ref := OwnerRef { o_apiv : nat; o_kind : nat; o_name : nat; o_uid : nat; o_controller : bool; o_block : bool }.

Record ttemplate := TTemplate {
  tt_retain : bool;
  tt_ppl : option nmap;          (* primaryPodLabels, None = nil map *)
  tt_pcn : nat;                  (* primaryContainerName *)
  tt_succ : nat;                 (* successCondition *)
  tt_fail : nat }.               (* failureCondition *)

Record experiment := Experiment {
  e_name : nat; e_ns : nat; e_uid : nat;
  e_labels : nmap;
  e_objective : option nat;      (* spec.objective (pointer) *)
  e_es : bool;                   (* spec.earlyStopping != nil *)
  e_tt : option ttemplate;       (* spec.trialTemplate (pointer) *)
  e_collector : option nat }.    (* spec.metricsCollectorSpec (pointer) *)

Record assignment := Assignment {
  a_name : nat;
  a_params : list (nat * nat);
  a_rules : list nat;
  a_labels : option nmap }.

Record trial := Trial {
  t_name : nat; t_ns : nat;
  t_labels : nmap;
  t_owners : list owner_ref;
  t_objective : option nat;
  t_params : list (nat * nat);
  t_rules : list nat;
  t_runspec : nat;               (* what the generator returned *)
  t_retain : bool;
  t_collector : option nat;      (* None = zero value *)
  t_ppl : option nmap;
  t_pcn : nat; t_succ : nat; t_fail : nat;
  t_status_empty : bool }.

(* util.TrialLabels *)
Definition trial_labels (e : experiment) : nmap := nset label_experiment (e_name e) (overlay [] (e_labels e)).

(* [gen name namespace assignments] = r.GetRunSpecWithHyperParameters(expInstance, trial.Name, trial.Namespace, hps) *)
Definition get_trial_instance (gen : nat -> nat -> list (nat * nat) -> outcome nat) (e : experiment) (a : assignment)
  : outcome trial :=
  let labels := match a_labels a with Some al => overlay (trial_labels e) al | None => trial_labels e end in
  (* SetControllerReference(expInstance, trial, scheme): same namespace, no previous controller: cannot fail *)
  let owners := [ {| o_apiv := apiv_experiment; o_kind := kind_experiment; o_name := e_name e; o_uid := e_uid e;
                     o_controller := true; o_block := true |} ] in
  match e_tt e with
  | None => Crash 1      (* GetTrialTemplate dereferences spec.trialTemplate *)
  | Some tpl =>
      match gen (a_name a) (e_ns e) (a_params a) with
      | Ok rs =>
          let both := negb (Nat.eqb (tt_succ tpl) 0) && negb (Nat.eqb (tt_fail tpl) 0) in
          Ok {| t_name := a_name a; t_ns := e_ns e; t_labels := labels; t_owners := owners;
                t_objective := e_objective e;
                t_params := a_params a;
                t_rules := if e_es e then a_rules a else [];
                t_runspec := rs;
                t_retain := tt_retain tpl;
                t_collector := e_collector e;
                t_ppl := tt_ppl tpl;
                t_pcn := tt_pcn tpl;
                t_succ := if both then tt_succ tpl else 0;
                t_fail := if both then tt_fail tpl else 0;
                t_status_empty := true |}
      | Err c => Err c
      | Crash c => Crash c
      end
  end.
