(* C10 — algorithm settings: what the Suggestion status remembers from earlier replies overrides the Experiment's settings
   before each request.   /repo/pkg/controller.v1beta1/suggestion/suggestionclient/algorithm_settings.go
   and the part of SyncAssignments (suggestionclient.go) that builds the two requests.  Also: the hand-written field table
   that the C10_field_coverage obligation compares with the regenerated Gen/Fields.v.  No proofs in this file. *)
From KV Require Import Base.Prelude Model.Convert.
Open Scope string_scope.

(* contains: index of the first setting with that name *)
Fixpoint contains (l : list kv) (n : string) : option nat :=
  match l with
  | [] => None
  | x :: r => if k_name x =? n then Some 0 else option_map S (contains r n)
  end.

(* l[i].Value = v *)
Fixpoint set_value (l : list kv) (i : nat) (v : string) : list kv :=
  match l, i with
  | [], _ => []
  | x :: r, 0 => KV (k_name x) v :: r
  | x :: r, S j => x :: set_value r j v
  end.

(* body of both loops: update the first entry of that name, else append the setting *)
Definition apply_setting (l : list kv) (s : kv) : list kv :=
  match contains l (k_name s) with
  | Some i => set_value l i (k_value s)
  | None => l ++ [KV (k_name s) (k_value s)]
  end.

Definition merge_settings (spec sug : list kv) : list kv := fold_left apply_setting sug spec.

(* appendAlgorithmSettingsFromSuggestion: experiment.Spec.Algorithm is only dereferenced inside the loop (Crash site 3) *)
Definition append_from_suggestion (e : experiment) (sug : list kv) : outcome experiment :=
  match sug with
  | [] => Ok e
  | _ :: _ =>
      match e_algorithm e with
      | None => Crash 3
      | Some a =>
          Ok {| e_name := e_name e; e_params := e_params e; e_objective := e_objective e;
                e_algorithm := Some {| a_name := a_name a; a_settings := merge_settings (a_settings a) sug |};
                e_early := e_early e; e_parallel := e_parallel e; e_max := e_max e; e_nas := e_nas e |}
      end
  end.

Definition somes {A} (l : list (option A)) : list A := flat_map (fun o => match o with Some a => [a] | None => [] end) l.

(* the experiment with its algorithm settings replaced *)
Definition with_settings (e : experiment) (l : list kv) : experiment :=
  {| e_name := e_name e; e_params := e_params e; e_objective := e_objective e;
     e_algorithm := option_map (fun a => {| a_name := a_name a; a_settings := l |}) (e_algorithm e);
     e_early := e_early e; e_parallel := e_parallel e; e_max := e_max e; e_nas := e_nas e |}.

(* updateAlgorithmSettings: nil entries of the reply are skipped *)
Definition update_settings (status : list kv) (reply : list (option kv)) : list kv :=
  fold_left (fun l o => match o with Some s => apply_setting l s | None => l end) reply status.

(* The requests of SyncAssignments (GetSuggestionsRequest, and GetEarlyStoppingRulesRequest when early stopping is set, carry
   the same Experiment and Trials): the experiment with the Suggestion's remembered settings merged in, and the trials. *)
Definition sync_request (e : experiment) (sug : list kv) (ts : list trial) : outcome (pb_experiment * list pb_trial) :=
  match append_from_suggestion e sug with
  | Ok e' =>
      match convert_experiment e' with
      | Ok pe => match convert_trials ts with
                 | Ok pts => Ok (pe, pts)
                 | Err c => Err c
                 | Crash s => Crash s
                 end
      | Err c => Err c
      | Crash s => Crash s
      end
  | Err c => Err c
  | Crash s => Crash s
  end.

(* ------------------------------------------------------------------ closed-form description used by the theorems *)

(* first / last value under a name *)
Fixpoint lookup (n : string) (l : list kv) : option string :=
  match l with
  | [] => None
  | x :: r => if k_name x =? n then Some (k_value x) else lookup n r
  end.
Fixpoint lookup_last (n : string) (l : list kv) : option string :=
  match l with
  | [] => None
  | x :: r => match lookup_last n r with
              | Some v => Some v
              | None => if k_name x =? n then Some (k_value x) else None
              end
  end.
Definition names (l : list kv) : list string := map k_name l.
(* names of [sug] not in [seen], first occurrences only, in order *)
Fixpoint new_names (seen : list string) (sug : list kv) : list string :=
  match sug with
  | [] => []
  | s :: r => if mem (k_name s) seen then new_names seen r else k_name s :: new_names (seen ++ [k_name s]) r
  end.

(* ------------------------------------------------------------------ field table (C10_field_coverage) *)

(* How the conversion treats each field of the API structs named by the property. Classes:
     carried   the value is copied into the message (third component: where), recoverable by [unconvert_*];
     consumed  not sent itself; it decides what is sent (stated how);
     reverse   belongs to the service -> controller direction (filled from a reply), not to what a service receives;
   A field of those structs that is in none of the lists, or a listed field that no longer exists, fails the obligation. *)
Definition carried_fields : list (string * string * string) :=
  [ ("ParameterSpec", "Name", "ParameterSpec.name");
    ("ParameterSpec", "ParameterType", "ParameterSpec.parameter_type (enum switch convertParameterType)");
    ("ParameterSpec", "FeasibleSpace", "ParameterSpec.feasible_space");
    ("FeasibleSpace", "Max", "FeasibleSpace.max");
    ("FeasibleSpace", "Min", "FeasibleSpace.min");
    ("FeasibleSpace", "List", "FeasibleSpace.list");
    ("FeasibleSpace", "Step", "FeasibleSpace.step");
    ("FeasibleSpace", "Distribution", "FeasibleSpace.distribution (enum switch convertDistribution)");
    ("ObjectiveSpec", "Type", "ObjectiveSpec.type (enum switch convertObjectiveType)");
    ("ObjectiveSpec", "Goal", "ObjectiveSpec.goal (nil reads 0)");
    ("ObjectiveSpec", "ObjectiveMetricName", "ObjectiveSpec.objective_metric_name");
    ("ObjectiveSpec", "AdditionalMetricNames", "ObjectiveSpec.additional_metric_names");
    ("AlgorithmSpec", "AlgorithmName", "AlgorithmSpec.algorithm_name");
    ("AlgorithmSpec", "AlgorithmSettings", "AlgorithmSpec.algorithm_settings (after the override by Suggestion.status)");
    ("AlgorithmSetting", "Name", "AlgorithmSetting.name");
    ("AlgorithmSetting", "Value", "AlgorithmSetting.value");
    ("EarlyStoppingSpec", "AlgorithmName", "EarlyStoppingSpec.algorithm_name");
    ("EarlyStoppingSpec", "AlgorithmSettings", "EarlyStoppingSpec.algorithm_settings");
    ("EarlyStoppingSetting", "Name", "EarlyStoppingSetting.name");
    ("EarlyStoppingSetting", "Value", "EarlyStoppingSetting.value");
    ("NasConfig", "GraphConfig", "NasConfig.graph_config");
    ("NasConfig", "Operations", "NasConfig.operations.operation");
    ("GraphConfig", "NumLayers", "GraphConfig.num_layers (nil reads 0)");
    ("GraphConfig", "InputSizes", "GraphConfig.input_sizes");
    ("GraphConfig", "OutputSizes", "GraphConfig.output_sizes");
    ("Operation", "OperationType", "Operation.operation_type");
    ("Operation", "Parameters", "Operation.parameter_specs.parameters");
    ("ParameterAssignment", "Name", "ParameterAssignment.name");
    ("ParameterAssignment", "Value", "ParameterAssignment.value");
    ("Observation", "Metrics", "Observation.metrics (one Metric per entry, in order)");
    ("Metric", "Name", "Metric.name");
    ("Metric", "Min", "Metric.value under strategy min, unless it is 'unavailable'");
    ("Metric", "Max", "Metric.value under strategy max, unless it is 'unavailable'");
    ("Metric", "Latest", "Metric.value under strategy latest and as the fall-back; also decides IsObservationAvailable") ].

Definition consumed_fields : list (string * string * string) :=
  [ ("ObjectiveSpec", "MetricStrategies", "not sent; convertTrialObservation reads the strategy of each metric from it");
    ("MetricStrategy", "Name", "key of the strategy map");
    ("MetricStrategy", "Value", "selects min / max / latest") ].

Definition reverse_fields : list (string * string * string) :=
  [ ("TrialAssignment", "ParameterAssignments", "from GetSuggestionsReply.parameter_assignments[i].assignments");
    ("TrialAssignment", "Name", "from .trial_name, generated when empty");
    ("TrialAssignment", "EarlyStoppingRules", "from GetEarlyStoppingRulesReply.early_stopping_rules");
    ("TrialAssignment", "Labels", "from .labels") ].

(* Fields of the proto messages: every one is written by the conversion (third component: from what). *)
Definition pb_written_fields : list (string * string * string) :=
  [ ("Experiment", "Name", "metadata.name");
    ("Experiment", "Spec", "always allocated");
    ("ExperimentSpec", "ParameterSpecs", "always allocated");
    ("ExperimentSpec", "Objective", "spec.objective (dereferenced)");
    ("ExperimentSpec", "Algorithm", "spec.algorithm (dereferenced)");
    ("ExperimentSpec", "EarlyStopping", "spec.earlyStopping when non nil");
    ("ExperimentSpec", "ParallelTrialCount", "spec.parallelTrialCount when non nil");
    ("ExperimentSpec", "MaxTrialCount", "spec.maxTrialCount when non nil");
    ("ExperimentSpec", "NasConfig", "spec.nasConfig when non nil");
    ("ExperimentSpec_ParameterSpecs", "Parameters", "spec.parameters");
    ("ParameterSpec", "Name", "ParameterSpec.Name");
    ("ParameterSpec", "ParameterType", "ParameterSpec.ParameterType");
    ("ParameterSpec", "FeasibleSpace", "ParameterSpec.FeasibleSpace");
    ("FeasibleSpace", "Max", "FeasibleSpace.Max");
    ("FeasibleSpace", "Min", "FeasibleSpace.Min");
    ("FeasibleSpace", "List", "FeasibleSpace.List");
    ("FeasibleSpace", "Step", "FeasibleSpace.Step");
    ("FeasibleSpace", "Distribution", "FeasibleSpace.Distribution");
    ("ObjectiveSpec", "Type", "ObjectiveSpec.Type");
    ("ObjectiveSpec", "Goal", "ObjectiveSpec.Goal");
    ("ObjectiveSpec", "ObjectiveMetricName", "ObjectiveSpec.ObjectiveMetricName");
    ("ObjectiveSpec", "AdditionalMetricNames", "ObjectiveSpec.AdditionalMetricNames");
    ("AlgorithmSpec", "AlgorithmName", "AlgorithmSpec.AlgorithmName");
    ("AlgorithmSpec", "AlgorithmSettings", "AlgorithmSpec.AlgorithmSettings");
    ("AlgorithmSetting", "Name", "AlgorithmSetting.Name");
    ("AlgorithmSetting", "Value", "AlgorithmSetting.Value");
    ("EarlyStoppingSpec", "AlgorithmName", "EarlyStoppingSpec.AlgorithmName");
    ("EarlyStoppingSpec", "AlgorithmSettings", "EarlyStoppingSpec.AlgorithmSettings");
    ("EarlyStoppingSetting", "Name", "EarlyStoppingSetting.Name");
    ("EarlyStoppingSetting", "Value", "EarlyStoppingSetting.Value");
    ("NasConfig", "GraphConfig", "NasConfig.GraphConfig");
    ("NasConfig", "Operations", "always allocated");
    ("NasConfig_Operations", "Operation", "NasConfig.Operations");
    ("GraphConfig", "NumLayers", "GraphConfig.NumLayers");
    ("GraphConfig", "InputSizes", "GraphConfig.InputSizes");
    ("GraphConfig", "OutputSizes", "GraphConfig.OutputSizes");
    ("Operation", "OperationType", "Operation.OperationType");
    ("Operation", "ParameterSpecs", "always allocated");
    ("Operation_ParameterSpecs", "Parameters", "Operation.Parameters");
    ("Trial", "Name", "metadata.name");
    ("Trial", "Spec", "always allocated");
    ("Trial", "Status", "always allocated");
    ("TrialSpec", "Objective", "spec.objective (dereferenced)");
    ("TrialSpec", "ParameterAssignments", "always allocated");
    ("TrialSpec", "Labels", "spec.labels");
    ("TrialSpec_ParameterAssignments", "Assignments", "spec.parameterAssignments");
    ("ParameterAssignment", "Name", "ParameterAssignment.Name");
    ("ParameterAssignment", "Value", "ParameterAssignment.Value");
    ("TrialStatus", "StartTime", "status.startTime");
    ("TrialStatus", "CompletionTime", "status.completionTime");
    ("TrialStatus", "Condition", "type of the last entry of status.conditions");
    ("TrialStatus", "Observation", "always allocated");
    ("Observation", "Metrics", "status.observation.metrics");
    ("Metric", "Name", "Metric.Name");
    ("Metric", "Value", "Metric.Min / Max / Latest by strategy") ].

(* Declared enum values that legitimately have the image UNKNOWN:
   the designated unknown of each type, and TrialMetricsUnavailable (convertTrialConditionType has no case for it although the
   proto enum has METRICSUNAVAILABLE; ConvertTrials skips every trial for which that condition is True, and the controllers
   only ever set it True, see C10_metrics_unavailable_not_sent). *)
Definition enum_unknown_ok : list (string * string) :=
  [ ("ParameterType", "unknown"); ("Distribution", "unknown"); ("ObjectiveType", ""); ("TrialConditionType", "MetricsUnavailable") ].

(* declared values with an image of their own, per enum type (from Model/Convert.v) *)
Definition enum_declared : list (string * list string) :=
  [ ("ParameterType", ptype_declared); ("Distribution", dist_declared); ("ObjectiveType", otype_declared);
    ("TrialConditionType", cond_declared); ("MetricStrategyType", ["min"; "max"; "latest"]) ].

(* names of the proto enum values as generated in api.pb.go, and the constructors of the model's types in numeric order *)
Definition ptype_name (p : pb_ptype) : string :=
  match p with PT_UNKNOWN_TYPE => "UNKNOWN_TYPE" | PT_DOUBLE => "DOUBLE" | PT_INT => "INT" | PT_DISCRETE => "DISCRETE"
          | PT_CATEGORICAL => "CATEGORICAL" end.
Definition dist_name (d : pb_dist) : string :=
  match d with D_DISTRIBUTION_UNSPECIFIED => "DISTRIBUTION_UNSPECIFIED" | D_UNIFORM => "UNIFORM" | D_LOG_UNIFORM => "LOG_UNIFORM"
          | D_NORMAL => "NORMAL" | D_LOG_NORMAL => "LOG_NORMAL" end.
Definition otype_name (o : pb_otype) : string :=
  match o with O_UNKNOWN => "UNKNOWN" | O_MINIMIZE => "MINIMIZE" | O_MAXIMIZE => "MAXIMIZE" end.
Definition cond_name (c : pb_cond) : string :=
  match c with C_CREATED => "CREATED" | C_RUNNING => "RUNNING" | C_SUCCEEDED => "SUCCEEDED" | C_KILLED => "KILLED"
          | C_FAILED => "FAILED" | C_METRICSUNAVAILABLE => "METRICSUNAVAILABLE" | C_EARLYSTOPPED => "EARLYSTOPPED"
          | C_UNKNOWN => "UNKNOWN" end.
Definition all_ptype := [PT_UNKNOWN_TYPE; PT_DOUBLE; PT_INT; PT_DISCRETE; PT_CATEGORICAL].
Definition all_dist := [D_DISTRIBUTION_UNSPECIFIED; D_UNIFORM; D_LOG_UNIFORM; D_NORMAL; D_LOG_NORMAL].
Definition all_otype := [O_UNKNOWN; O_MINIMIZE; O_MAXIMIZE].
Definition all_cond := [C_CREATED; C_RUNNING; C_SUCCEEDED; C_KILLED; C_FAILED; C_METRICSUNAVAILABLE; C_EARLYSTOPPED; C_UNKNOWN].
Definition pb_enum_names : list (string * list string) :=
  [ ("ParameterType", map ptype_name all_ptype); ("Distribution", map dist_name all_dist);
    ("ObjectiveType", map otype_name all_otype); ("TrialConditionType", map cond_name all_cond) ].

(* image of an API enum string under the model's switch, by proto NAME; and the NAME of each type's unknown *)
Definition enum_image (ty v : string) : string :=
  if ty =? "ParameterType" then ptype_name (convert_ptype v)
  else if ty =? "Distribution" then dist_name (convert_dist v)
  else if ty =? "ObjectiveType" then otype_name (convert_otype v)
  else if ty =? "TrialConditionType" then cond_name (convert_cond v)
  else "".
Definition enum_unknown_name (ty : string) : string :=
  if ty =? "ParameterType" then "UNKNOWN_TYPE"
  else if ty =? "Distribution" then "DISTRIBUTION_UNSPECIFIED"
  else "UNKNOWN".

(* is (ty, v) a constant the model knows as declared: with an image of its own, or one of [enum_unknown_ok] *)
Definition declared_in_model (ty v : string) : bool :=
  existsb (fun p => (fst p =? ty) && mem v (snd p)) enum_declared ||
  existsb (fun p => (fst p =? ty) && (snd p =? v)) enum_unknown_ok.
