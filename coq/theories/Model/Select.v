(* C09: which trials a suggestion reconcile selects for its experiment's algorithm and early-stopping services.
   ReconcileSuggestion: List(trials, InNamespace(instance.Namespace), MatchingLabels({experiment-name label: experiment.Name}))
   (since the repair of F19, katib 88eea22; before it the selector was util.TrialLabels(experiment), i.e. ALL labels the
   experiment carries now: [select_all_labels] below) followed by the two skips of General.ConvertTrials.  Namespaces, names, label keys and values are interned numbers;
   a label map is an association list with unique keys (the harness prints Go maps that way). *)
From KV Require Import Base.Prelude.

Definition labels := list (nat * nat).

Fixpoint lookup (k : nat) (l : labels) : option nat :=
  match l with
  | [] => None
  | (k', v) :: r => if Nat.eqb k' k then Some v else lookup k r
  end.

(* Go: m[k] = v on a map *)
Fixpoint set_label (k v : nat) (l : labels) : labels :=
  match l with
  | [] => [(k, v)]
  | (k', v') :: r => if Nat.eqb k' k then (k, v) :: r else (k', v') :: set_label k v r
  end.

Definition KEY_EXPERIMENT : nat := 0.    (* consts.LabelExperimentName = "katib.kubeflow.org/experiment" *)

Record sexp := { se_ns : nat; se_name : nat; se_labels : labels }.

Record strial := {
  st_ns : nat; st_name : nat; st_labels : labels;
  st_owner : nat;                       (* index of the owning experiment in the cluster's experiment list *)
  st_mu : bool;                         (* MetricsUnavailable *)
  st_es : bool;                         (* EarlyStopped *)
  st_obs : bool }.                      (* IsObservationAvailable *)

(* util.TrialLabels: a copy of the experiment's labels with the experiment-name label set *)
Definition trial_labels (e : sexp) : labels := set_label KEY_EXPERIMENT (se_name e) (se_labels e).

(* client.MatchingLabels: every selector pair is present in the object's labels *)
Definition matches (sel lab : labels) : bool :=
  forallb (fun kv => match lookup (fst kv) lab with Some v => Nat.eqb v (snd kv) | None => false end) sel.

(* the selector of the suggestion controller: the experiment-name label *)
Definition name_selector (e : sexp) : labels := [(KEY_EXPERIMENT, se_name e)].

Definition select (e : sexp) (cl : list strial) : list strial :=
  filter (fun t => Nat.eqb (st_ns t) (se_ns e) && matches (name_selector e) (st_labels t)) cl.

(* the selection before the repair of F19: every label the experiment carries now must be on the trial *)
Definition select_all_labels (e : sexp) (cl : list strial) : list strial :=
  filter (fun t => Nat.eqb (st_ns t) (se_ns e) && matches (trial_labels e) (st_labels t)) cl.

(* General.ConvertTrials skips metrics-unavailable trials and early-stopped trials without observation *)
Definition convert_keep (t : strial) : bool := negb (st_mu t) && negb (st_es t && negb (st_obs t)).

Definition sent (e : sexp) (cl : list strial) : list nat := map st_name (filter convert_keep (select e cl)).

Definition own (eid : nat) (cl : list strial) : list strial := filter (fun t => Nat.eqb (st_owner t) eid) cl.
