(* C15 model: the update branch of DefaultValidator.ValidateExperiment (pkg/webhook/v1beta1/experiment/validator/validator.go,
   `if oldInst != nil { ... }`) and experimentutil.IsCompletedExperimentRestartable (pkg/controller.v1beta1/experiment/util/status_util.go),
   Experiment.IsSucceeded / IsFailed / IsCompleted / IsCompletedReason (pkg/apis/controller/experiments/v1beta1/util.go).

   A spec is its three budget fields plus [rest : R], "everything else", for an ARBITRARY type R with decidable equality:
   equality.Semantic.DeepEqual(instance.Spec, oldInst.Spec) is modelled as equality of the three fields and of [rest]
   (DeepEqual on a struct is field-wise), and the second DeepEqual, taken after the three fields of the old spec have been
   overwritten with the new ones, as equality of [rest] alone.  The correspondence instantiates R with a digest of the
   reflection-flattened spec; that every field of ExperimentSpec takes part in it is the table obligation C15_fields_swept. *)
From KV Require Import Base.Prelude Model.Validator.
Open Scope Z_scope.

Record ocond := { oc_type : nat;           (* 0 Created, 1 Running, 2 Restarting, 3 Succeeded, 4 Failed, 5 anything else *)
                  oc_true : bool;          (* Status == ConditionTrue *)
                  oc_maxreached : bool }.  (* Reason == ExperimentMaxTrialsReachedReason *)

(* getCondition: the FIRST condition of that type *)
Definition get_ocond (cs : list ocond) (t : nat) : option ocond := find (fun c => Nat.eqb (oc_type c) t) cs.
Definition has_ocond (cs : list ocond) (t : nat) : bool :=
  match get_ocond cs t with Some c => oc_true c | None => false end.

Definition is_succeeded (cs : list ocond) : bool := has_ocond cs 3.
Definition is_failed (cs : list ocond) : bool := has_ocond cs 4.
Definition is_completed (cs : list ocond) : bool := is_succeeded cs || is_failed cs.
(* IsCompletedReason(ExperimentMaxTrialsReachedReason) *)
Definition max_trials_reached (cs : list ocond) : bool :=
  match get_ocond cs 3 with Some c => oc_true c && oc_maxreached c | None => false end.

Section Update.
  Variable R : Type.
  Variable R_eq_dec : forall a b : R, {a = b} + {a <> b}.

  Record budget := { b_par : option Z; b_max : option Z; b_mf : option Z }.

  Definition optZ_eqb (a b : option Z) : bool := option_eqb Z.eqb a b.
  Definition budget_eqb (a b : budget) : bool :=
    optZ_eqb (b_par a) (b_par b) && optZ_eqb (b_max a) (b_max b) && optZ_eqb (b_mf a) (b_mf b).
  Definition R_eqb (a b : R) : bool := if R_eq_dec a b then true else false.

  (* the stored object *)
  Record stored := { o_par : option Z; o_max : option Z; o_mf : option Z; o_rest : R;
                     o_trials : Z; o_conds : list ocond; o_resume : resume }.
  Definition stored_budget (o : stored) : budget := {| b_par := o_par o; b_max := o_max o; b_mf := o_mf o |}.

  Definition restartable (o : stored) : bool :=
    is_succeeded (o_conds o) && max_trials_reached (o_conds o) &&
    match o_resume o with RLong | RVolume => true | _ => false end.

  (* the errors of the update branch, in order: rules 7, 8, 9 *)
  Definition update_errs (nb : budget) (nrest : R) (o : stored) : list err :=
    let restarting := negb (budget_eqb nb (stored_budget o) && R_eqb nrest (o_rest o)) in
    when (restarting && is_completed (o_conds o) && negb (restartable o)) (E 7) ++
    when (restarting && match b_max nb with Some m => m <=? o_trials o | None => false end) (E 8) ++
    when (negb (R_eqb nrest (o_rest o))) (E 9).
End Update.

Arguments b_par : clear implicits.
Arguments update_errs {R} R_eq_dec nb nrest o.
Arguments restartable {R} o.
Arguments stored_budget {R} o.
Arguments Build_stored {R}.
Arguments o_par {R}. Arguments o_max {R}. Arguments o_mf {R}. Arguments o_rest {R}. Arguments o_trials {R}.
Arguments o_conds {R}. Arguments o_resume {R}.

Definition budget_of (e : experiment) : budget := {| b_par := e_par e; b_max := e_max e; b_mf := e_mf e |}.

(* ValidateExperiment(new, old) *)
Definition validate_update {R} (R_eq_dec : forall a b : R, {a = b} + {a <> b})
           (en : env) (e : experiment) (rest : R) (o : stored R) : outcome (list err) :=
  validate_gen en e (update_errs R_eq_dec (budget_of e) rest o).
