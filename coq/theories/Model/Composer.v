(* C17 — executable model of the suggestion composer (no proofs here).

   Transcribes
     pkg/controller.v1beta1/suggestion/composer/composer.go   General.DesiredDeployment / DesiredService /
                                                              desiredContainers / DesiredVolume / DesiredRBAC
     pkg/controller.v1beta1/util/suggestion.go                GetSuggestion*Name, GetAlgorithmEndpoint, GetEarlyStoppingEndpoint
     pkg/controller.v1beta1/util/labels.go, annotations.go    SuggestionLabels, SuggestionAnnotations
     pkg/util/v1beta1/katibconfig/config.go                   GetSuggestionConfigData, GetEarlyStoppingConfigData
     pkg/controller.v1beta1/suggestion/suggestionclient       which endpoints are dialled (SyncAssignments, Validate*Settings)
     pkg/controller.v1beta1/suggestion/suggestion_controller.go  ReconcileSuggestion: which objects the first reconcile creates

   Not modelled (results supplied by the harness): reading/decoding/defaulting of the katib-config ConfigMap (the model
   receives the decoded, defaulted entries, or None when it cannot be read), strings.TrimSpace(image) == "" (a boolean),
   equality.Semantic.DeepEqual(pvSpec, {}) (PV spec arrives as an option), controllerutil.SetControllerReference
   (modelled by its effect for a registered owner type), viper.GetBool (a boolean input), fmt.Sprintf("%d") (decimal printing
   from Coq's DecimalString).  Sub-structures the composer copies through unchanged (resources, command/args/env,
   PVC/PV specs) are opaque tokens. *)
From KV Require Import Base.Prelude.
From Coq Require Import DecimalString Decimal.
Open Scope Z_scope.

(* ------------------------------------------------------------------ constants (values come from the Go packages, via the harness) *)
Record consts := Consts {
  k_port_name : string;        (* consts.DefaultSuggestionPortName *)
  k_port : Z;                  (* consts.DefaultSuggestionPort *)
  k_es_port_name : string;     (* consts.DefaultEarlyStoppingPortName *)
  k_es_port : Z;               (* consts.DefaultEarlyStoppingPort *)
  k_ctr_suggestion : string;   (* consts.ContainerSuggestion *)
  k_ctr_es : string;           (* consts.ContainerEarlyStopping *)
  k_volume : string;           (* consts.ContainerSuggestionVolumeName *)
  k_l_deployment : string;     (* consts.LabelDeploymentName *)
  k_l_experiment : string;     (* consts.LabelExperimentName *)
  k_l_suggestion : string;     (* consts.LabelSuggestionName *)
  k_istio_key : string;        (* consts.AnnotationIstioSidecarInjectName *)
  k_istio_val : string;        (* consts.AnnotationIstioSidecarInjectValue *)
  k_from_volume : string;      (* experimentsv1beta1.FromVolume *)
  k_grpc_service : string;     (* consts.DefaultGRPCService *)
  k_cluster_ip : string;       (* corev1.ServiceTypeClusterIP *)
  k_owner_api : string;        (* apiVersion of Suggestion in the scheme *)
  k_owner_kind : string;       (* kind of Suggestion in the scheme *)
  k_trial_group : string;      (* trialsv1beta1.Group *)
  k_plural_trial : string;     (* consts.PluralTrial *)
  k_verb_all : string;         (* rbacv1.VerbAll *)
  k_sa_kind : string;          (* rbacv1.ServiceAccountKind *)
  k_rbac_group : string        (* rbacv1.GroupName *)
}.

(* ------------------------------------------------------------------ finite maps map[string]string as association lists *)
Definition smap := list (string * string).

Fixpoint mget (k : string) (m : smap) : option string :=
  match m with
  | [] => None
  | (k', v) :: r => if String.eqb k' k then Some v else mget k r
  end.

Definition mdel (k : string) (m : smap) : smap := filter (fun p => negb (String.eqb (fst p) k)) m.
(* res[k] = v *)
Definition mset (k v : string) (m : smap) : smap := (k, v) :: mdel k m.

(* ------------------------------------------------------------------ projected Kubernetes objects *)
Record port := Port { p_name : string; p_num : Z }.                       (* corev1.ContainerPort: Name, ContainerPort *)
Record vmount := VMount { vm_name : string; vm_path : string }.           (* corev1.VolumeMount: Name, MountPath *)
Record probe := Probe { pr_grpc : option (Z * string); pr_delay : Z; pr_period : Z; pr_failure : Z }.

Record container := Container {
  ct_name : string; ct_image : string; ct_pull : string;
  ct_ports : list port; ct_mounts : list vmount;
  ct_readiness : option probe; ct_liveness : option probe;
  ct_resources : nat;    (* opaque: corev1.ResourceRequirements *)
  ct_rest : nat          (* opaque: every other field of corev1.Container *)
}.

Record owner_ref := OwnerRef { o_api : string; o_kind : string; o_name : string; o_uid : string; o_controller : bool; o_block : bool }.

Record volume := Volume { v_name : string; v_claim : string }.            (* pod volume backed by a PVC *)

Record deployment := Deployment {
  d_name : string; d_ns : string; d_labels : smap; d_annotations : smap;
  d_selector : smap; d_tpl_labels : smap; d_tpl_annotations : smap;
  d_containers : list container; d_sa : string; d_volumes : list volume; d_owners : list owner_ref }.

Inductive target := TDefault | TNum (z : Z) | TName (s : string).         (* ServicePort.TargetPort; zero value = same as Port *)
Record sport := SPort { sp_name : string; sp_port : Z; sp_target : target }.
Record service := Service {
  sv_name : string; sv_ns : string; sv_selector : smap; sv_ports : list sport; sv_type : string; sv_owners : list owner_ref }.

Record pvc := PVC { pvc_name : string; pvc_ns : string; pvc_spec : nat; pvc_owners : list owner_ref }.
Record pv := PV { pv_name : string; pv_ns : string; pv_labels : smap; pv_spec : nat; pv_owners : list owner_ref }.

Record sacc := SAcc { sa_name : string; sa_ns : string; sa_owners : list owner_ref }.
Record rule := Rule { r_groups : list string; r_resources : list string; r_verbs : list string }.
Record role := Role { ro_name : string; ro_ns : string; ro_rules : list rule; ro_owners : list owner_ref }.
Record subject := Subject { sj_kind : string; sj_name : string; sj_ns : string }.
Record rolebinding := RoleBinding {
  rb_name : string; rb_ns : string; rb_subjects : list subject;
  rb_ref_group : string; rb_ref_kind : string; rb_ref_name : string; rb_owners : list owner_ref }.

(* ------------------------------------------------------------------ inputs *)
Record suggestion := Suggestion {
  s_name : string; s_ns : string; s_uid : string;
  s_labels : smap; s_annotations : smap;
  s_algorithm : string;               (* Spec.Algorithm.AlgorithmName *)
  s_es : option string;               (* Spec.EarlyStopping: nil / &{AlgorithmName} *)
  s_resume : string                   (* Spec.ResumePolicy *)
}.

(* configv1beta1.SuggestionConfig as decoded from katib-config (defaults applied by the decoder) *)
Record sconfig := SConfig {
  sc_algorithm : string;
  sc_container : container;           (* the inlined corev1.Container *)
  sc_image_blank : bool;              (* strings.TrimSpace(Image) == "" *)
  sc_sa : string;                     (* ServiceAccountName *)
  sc_mount_path : string;             (* VolumeMountPath *)
  sc_pvc_spec : nat;                  (* opaque PersistentVolumeClaimSpec *)
  sc_pv_spec : option nat;            (* None iff Semantic.DeepEqual(PersistentVolumeSpec, {}) *)
  sc_pv_labels : smap
}.

Record esconfig := ESConfig { ec_algorithm : string; ec_image : string; ec_image_blank : bool; ec_pull : string; ec_resources : nat }.

Record katib_config := KatibConfig { kc_suggestions : list sconfig; kc_early : list esconfig }.

(* ------------------------------------------------------------------ util/suggestion.go *)
Definition cat (a b : string) : string := String.append a b.
Definition dash : string := "-"%string.

Definition deployment_name (s : suggestion) : string := cat (s_name s) (cat dash (s_algorithm s)).
Definition service_name (s : suggestion) : string := cat (s_name s) (cat dash (s_algorithm s)).
Definition pv_name_of (s : suggestion) : string := cat (s_name s) (cat dash (cat (s_algorithm s) (cat dash (s_ns s)))).
Definition pvc_name_of (s : suggestion) : string := cat (s_name s) (cat dash (s_algorithm s)).
Definition rbac_name (s : suggestion) : string := cat (s_name s) (cat dash (s_algorithm s)).

Definition dec (z : Z) : string := NilZero.string_of_int (Z.to_int z).
(* fmt.Sprintf("%s.%s:%d", host, ns, port) *)
Definition endpoint (host ns : string) (p : Z) : string := cat host (cat "."%string (cat ns (cat ":"%string (dec p)))).

Definition algorithm_endpoint (K : consts) (s : suggestion) : string := endpoint (service_name s) (s_ns s) (k_port K).
Definition early_stopping_endpoint (K : consts) (s : suggestion) : string := endpoint (service_name s) (s_ns s) (k_es_port K).

(* util/labels.go SuggestionLabels, util/annotations.go SuggestionAnnotations *)
Definition suggestion_labels (K : consts) (s : suggestion) : smap :=
  mset (k_l_suggestion K) (s_name s)
    (mset (k_l_experiment K) (s_name s)
      (mset (k_l_deployment K) (deployment_name s) (s_labels s))).

Definition suggestion_annotations (K : consts) (s : suggestion) : smap := mset (k_istio_key K) (k_istio_val K) (s_annotations s).

(* s.Spec.EarlyStopping != nil && s.Spec.EarlyStopping.AlgorithmName != "" *)
Definition es_on (s : suggestion) : bool :=
  match s_es s with Some n => negb (String.eqb n ""%string) | None => false end.
Definition es_name (s : suggestion) : string := match s_es s with Some n => n | None => ""%string end.
Definition from_volume (K : consts) (s : suggestion) : bool := String.eqb (s_resume s) (k_from_volume K).

(* SetControllerReference(s, obj, scheme) for a registered owner type *)
Definition controller_ref (K : consts) (s : suggestion) : owner_ref :=
  OwnerRef (k_owner_api K) (k_owner_kind K) (s_name s) (s_uid s) true true.

(* ------------------------------------------------------------------ katibconfig *)
(* the LAST entry whose algorithm name matches wins (the loop does not break) *)
Fixpoint find_last {A} (f : A -> bool) (l : list A) : option A :=
  match l with
  | [] => None
  | a :: r => match find_last f r with Some b => Some b | None => if f a then Some a else None end
  end.

(* error codes: 0 config unreadable, 1 no suggestion entry, 2 blank image, 3 port redefined, 4 no early-stopping entry *)
Definition get_suggestion_config (cfg : option katib_config) (alg : string) : outcome sconfig :=
  match cfg with
  | None => Err 0
  | Some c =>
      match find_last (fun e => String.eqb (sc_algorithm e) alg) (kc_suggestions c) with
      | None => Err 1
      | Some e => if sc_image_blank e then Err 2 else Ok e
      end
  end.

Definition get_early_stopping_config (cfg : option katib_config) (alg : string) : outcome esconfig :=
  match cfg with
  | None => Err 0
  | Some c =>
      match find_last (fun e => String.eqb (ec_algorithm e) alg) (kc_early c) with
      | None => Err 4
      | Some e => if ec_image_blank e then Err 2 else Ok e
      end
  end.

(* ------------------------------------------------------------------ composer.go *)
Definition has_port_name (ps : list port) (n : string) : bool := existsb (fun p => String.eqb (p_name p) n) ps.
Definition has_port_num (ps : list port) (z : Z) : bool := existsb (fun p => Z.eqb (p_num p) z) ps.
Definition has_mount (ms : list vmount) (n : string) : bool := existsb (fun m => String.eqb (vm_name m) n) ms.

Definition redefines_port (K : consts) (sc : sconfig) : bool :=
  has_port_name (ct_ports (sc_container sc)) (k_port_name K) || has_port_num (ct_ports (sc_container sc)) (k_port K).

Definition readiness_default (K : consts) : probe := Probe (Some (k_port K, k_grpc_service K)) 10 10 0.
Definition liveness_default (K : consts) : probe := Probe (Some (k_port K, k_grpc_service K)) 10 120 12.

Definition default_opt {A} (o : option A) (d : A) : option A := match o with Some _ => o | None => Some d end.

(* desiredContainers: the suggestion container *)
Definition suggestion_container (K : consts) (grpc_probe : bool) (s : suggestion) (sc : sconfig) : container :=
  let c := sc_container sc in
  Container
    (if String.eqb (ct_name c) ""%string then k_ctr_suggestion K else ct_name c)
    (ct_image c) (ct_pull c)
    (ct_ports c ++ [Port (k_port_name K) (k_port K)])
    (if from_volume K s && negb (has_mount (ct_mounts c) (k_volume K))
     then ct_mounts c ++ [VMount (k_volume K) (sc_mount_path sc)] else ct_mounts c)
    (if grpc_probe then default_opt (ct_readiness c) (readiness_default K) else ct_readiness c)
    (if grpc_probe then default_opt (ct_liveness c) (liveness_default K) else ct_liveness c)
    (ct_resources c) (ct_rest c).

(* the early-stopping container; opaque token 0 is reserved for "every other field is empty" *)
Definition es_container (K : consts) (ec : esconfig) : container :=
  Container (k_ctr_es K) (ec_image ec) (ec_pull ec) [Port (k_es_port_name K) (k_es_port K)] [] None None (ec_resources ec) 0%nat.

Definition desired_containers (K : consts) (grpc_probe : bool) (s : suggestion) (sc : sconfig) (ec : option esconfig)
  : list container :=
  suggestion_container K grpc_probe s sc ::
  (if es_on s then match ec with Some e => [es_container K e] | None => [] end else []).

Definition desired_deployment (K : consts) (grpc_probe : bool) (cfg : option katib_config) (s : suggestion)
  : outcome deployment :=
  match get_suggestion_config cfg (s_algorithm s) with
  | Err e => Err e
  | Crash e => Crash e
  | Ok sc =>
      if redefines_port K sc then Err 3 else
      let build (ec : option esconfig) :=
        Ok (Deployment (deployment_name s) (s_ns s) (s_labels s) (s_annotations s)
              (suggestion_labels K s) (suggestion_labels K s) (suggestion_annotations K s)
              (desired_containers K grpc_probe s sc ec)
              (if es_on s && String.eqb (sc_sa sc) ""%string then rbac_name s else sc_sa sc)
              (if from_volume K s then [Volume (k_volume K) (pvc_name_of s)] else [])
              [controller_ref K s]) in
      if es_on s then
        match get_early_stopping_config cfg (es_name s) with
        | Err e => Err e
        | Crash e => Crash e
        | Ok ec => build (Some ec)
        end
      else build None
  end.

Definition desired_service (K : consts) (s : suggestion) : service :=
  Service (service_name s) (s_ns s) (suggestion_labels K s)
    (SPort (k_port_name K) (k_port K) TDefault ::
     (if es_on s then [SPort (k_es_port_name K) (k_es_port K) TDefault] else []))
    (k_cluster_ip K) [controller_ref K s].

Definition desired_volume (K : consts) (cfg : option katib_config) (s : suggestion) : outcome (pvc * option pv) :=
  match get_suggestion_config cfg (s_algorithm s) with
  | Err e => Err e
  | Crash e => Crash e
  | Ok sc =>
      Ok (PVC (pvc_name_of s) (s_ns s) (sc_pvc_spec sc) [controller_ref K s],
          match sc_pv_spec sc with
          | Some spec => Some (PV (pv_name_of s) ""%string (sc_pv_labels sc) spec [])
          | None => None
          end)
  end.

Definition desired_rbac (K : consts) (s : suggestion) : sacc * role * rolebinding :=
  (SAcc (rbac_name s) (s_ns s) [controller_ref K s],
   Role (rbac_name s) (s_ns s)
     [Rule [k_trial_group K] [k_plural_trial K; cat (k_plural_trial K) "/status"%string] [k_verb_all K]]
     [controller_ref K s],
   RoleBinding (rbac_name s) (s_ns s) [Subject (k_sa_kind K) (rbac_name s) (s_ns s)]
     (k_rbac_group K) "Role"%string (rbac_name s) [controller_ref K s]).

(* ------------------------------------------------------------------ the dialling side (suggestionclient.go) *)
(* SyncAssignments dials the algorithm endpoint, then the early-stopping endpoint when Spec.EarlyStopping != nil;
   ReconcileSuggestion calls ValidateAlgorithmSettings and, when Spec.EarlyStopping != nil, ValidateEarlyStoppingSettings. *)
Definition es_dialled (s : suggestion) : bool := match s_es s with Some _ => true | None => false end.
(* (false, t): target t handed to the Suggestion client factory; (true, t): to the EarlyStopping client factory *)
Definition dialled (K : consts) (s : suggestion) : list (bool * string) :=
  (false, algorithm_endpoint K s) :: (if es_dialled s then [(true, early_stopping_endpoint K s)] else []).

(* Spec.EarlyStopping, when present, names an algorithm (what the experiment webhook admits: validateEarlyStopping) *)
Definition es_wf (s : suggestion) : bool := match s_es s with Some n => negb (String.eqb n ""%string) | None => true end.

(* ------------------------------------------------------------------ ReconcileSuggestion on an empty cluster: what gets created *)
Inductive kind := KPV | KPVC | KService | KServiceAccount | KRole | KRoleBinding | KDeployment.
Definition kind_id (k : kind) : nat :=
  match k with KPV => 0 | KPVC => 1 | KService => 2 | KServiceAccount => 3 | KRole => 4 | KRoleBinding => 5 | KDeployment => 6 end%nat.
Record objref := ObjRef { or_kind : nat; or_ns : string; or_name : string }.

(* suggestion_controller.go: instance.Spec.EarlyStopping != nil && deploy...ServiceAccountName == util.GetSuggestionRBACName(instance) *)
Definition rbac_guard (s : suggestion) (d : deployment) : bool := es_dialled s && String.eqb (d_sa d) (rbac_name s).

(* objects created by the first ReconcileSuggestion (in creation order) and whether it returned an error *)
Definition first_reconcile (K : consts) (grpc_probe : bool) (cfg : option katib_config) (s : suggestion)
  : list objref * bool :=
  let vol :=
    if from_volume K s then
      match desired_volume K cfg s with
      | Ok (c, Some v) => Some [ObjRef (kind_id KPV) ""%string (pv_name v); ObjRef (kind_id KPVC) (pvc_ns c) (pvc_name c)]
      | Ok (c, None) => Some [ObjRef (kind_id KPVC) (pvc_ns c) (pvc_name c)]
      | _ => None
      end
    else Some [] in
  match vol with
  | None => ([], true)
  | Some vs =>
      let sv := desired_service K s in
      let vs := vs ++ [ObjRef (kind_id KService) (sv_ns sv) (sv_name sv)] in
      match desired_deployment K grpc_probe cfg s with
      | Ok d =>
          let '(a, r, b) := desired_rbac K s in
          (vs ++ (if rbac_guard s d
                  then [ObjRef (kind_id KServiceAccount) (sa_ns a) (sa_name a); ObjRef (kind_id KRole) (ro_ns r) (ro_name r);
                        ObjRef (kind_id KRoleBinding) (rb_ns b) (rb_name b)]
                  else [])
              ++ [ObjRef (kind_id KDeployment) (d_ns d) (d_name d)], false)
      | _ => (vs, true)
      end
  end.
