(* C18 — executable model of the Go suggestion service (pkg/suggestion/v1beta1/goptuna) and of the value
   post-processing of the vendored github.com/c-bata/goptuna v0.8.0 (distribution.go: ToExternalRepr).

   Modelled:   toGoptunaSearchSpace / toGoptunaSampler (settings checks) / ValidateAlgorithmSettings (converter.go, service.go),
               ToExternalRepr of every distribution (goptuna/distribution.go), the Suggest* pre-checks (goptuna/trial.go),
               sampleNextParam (sample.go), toGoptunaState / getFinalMetric / toGoptunaParams / toGoptunaTrials (converter.go),
               syncTrials + findGoptunaTrialIDByParam + the in-memory storage's SetTrialValue/SetTrialState (service.go, sample.go,
               goptuna/storage.go), GetSuggestions (service.go).
   NOT modelled: the samplers (random / TPE / CMA-ES / Sobol).  The raw internal draw of every parameter of every new goptuna
               trial is an INPUT of the model (read from the study by a verif accessor in the harness; universally quantified
               in the theorems, constrained only by the sampler's range where a theorem needs it).
   Library calls evaluated by the harness: strconv.Atoi/ParseInt/ParseFloat/FormatFloat/Itoa, time.Parse (results arrive in the case).
   Numbers:    integers are Z; a draw is the exact dyadic rational d_num / 2^d_k together with its binary64 bit pattern d_bits;
               binary64 values that are only copied or compared for equality are bit patterns (Z); the step-double arithmetic
               floor((x-low)/q+0.5)*q+low is computed with Coq's primitive binary64 floats. *)
From KV Require Import Base.Prelude.
From Coq Require Import Floats.
Close Scope float_scope.
Open Scope Z_scope.

(* ------------------------------------------------------------------ binary64 <-> bit patterns, floor *)

Definition f64_of_bits (b : Z) : float :=
  let s := 2^63 <=? b in
  let E := (b / 2^52) mod 2^11 in
  let M := b mod 2^52 in
  if (E =? 0)%Z then match M with Zpos m => SF2Prim (S754_finite s m (-1074)) | _ => SF2Prim (S754_zero s) end
  else if (E =? 2047)%Z then (if (M =? 0)%Z then SF2Prim (S754_infinity s) else SF2Prim S754_nan)
  else match (M + 2^52)%Z with Zpos m => SF2Prim (S754_finite s m (E - 1075)%Z) | _ => SF2Prim S754_nan end.

Definition bits_of_f64 (f : float) : Z :=
  match Prim2SF f with
  | S754_zero s => if s then 2^63 else 0
  | S754_infinity s => (if s then 2^63 else 0) + 2047 * 2^52
  | S754_nan => 2047 * 2^52 + 2^51
  | S754_finite s m e =>
      (if s then 2^63 else 0) + (if Zpos m <? 2^52 then Zpos m else (e + 1075) * 2^52 + (Zpos m - 2^52))
  end.

(* math.Floor *)
Definition f64_floor (x : float) : float :=
  match Prim2SF x with
  | S754_finite s m e =>
      if (0 <=? e)%Z then x
      else let z := ((if s then Zneg m else Zpos m) / 2 ^ (- e))%Z in
           if (z <? 0)%Z then PrimFloat.opp (PrimFloat.of_uint63 (Uint63.of_Z (- z))) else PrimFloat.of_uint63 (Uint63.of_Z z)
  | _ => x
  end.

(* goptuna DiscreteUniformDistribution.ToExternalRepr: math.Floor((ir-d.Low)/d.Q+0.5)*d.Q + d.Low  (no fused multiply-add: amd64) *)
Definition dstep (lo q x : float) : float :=
  PrimFloat.add (PrimFloat.mul (f64_floor (PrimFloat.add (PrimFloat.div (PrimFloat.sub x lo) q) 0.5%float)) q) lo.

Definition ext_dstep_bits (lo q x : Z) : Z := bits_of_f64 (dstep (f64_of_bits lo) (f64_of_bits q) (f64_of_bits x)).

(* -0 == +0 for Go's == on float64 (reflect.DeepEqual of the Params maps); NaN never occurs (harness reports it otherwise) *)
Definition nz (b : Z) : Z := if b =? 2^63 then 0 else b.

Definition f64_lt_bits (a b : Z) : bool := PrimFloat.ltb (f64_of_bits a) (f64_of_bits b).

(* ------------------------------------------------------------------ integer post-processing (exact arithmetic) *)

(* math.Round of the rational a/b (b > 0): nearest integer, halves away from zero *)
Definition rnd_half_away (a b : Z) : Z :=
  if 0 <=? a then (2 * a + b) / (2 * b) else - ((2 * (- a) + b) / (2 * b)).

(* the raw internal value a sampler stored for one parameter *)
Record draw := Draw { d_num : Z; d_k : Z; d_bits : Z }.   (* value = d_num / 2^d_k, d_k >= 0; d_bits = its binary64 bits *)

(* IntUniformDistribution.ToExternalRepr: int(math.Round(ir)) *)
Definition ext_int (d : draw) : Z := rnd_half_away (d_num d) (2 ^ d_k d).

(* StepIntUniformDistribution.ToExternalRepr: r := (ir-low)/step; int(math.Round(r))*step + low.
   (ir-low)/step is evaluated exactly here; Go evaluates it in binary64.) *)
Definition ext_stepint (lo step : Z) (d : draw) : Z :=
  rnd_half_away (d_num d - lo * 2 ^ d_k d) (step * 2 ^ d_k d) * step + lo.

(* CategoricalDistribution.ToExternalRepr: d.Choices[int(ir)]  (int() truncates toward zero; out of range panics) *)
Definition ext_cat (choices : list string) (d : draw) : outcome string :=
  let i := Z.quot (d_num d) (2 ^ d_k d) in
  if i <? 0 then Crash 1
  else match nth_error choices (Z.to_nat i) with Some c => Ok c | None => Crash 1 end.

(* ------------------------------------------------------------------ search space (converter.go toGoptunaSearchSpace) *)

Inductive ptype := PInt | PDouble | PDiscrete | PCategorical | PUnknown.

(* one api ParameterSpec; the strconv results on min/max/step are supplied by the harness (None = parse error) *)
Record pspec := PSpec {
  p_name : nat; p_type : ptype;
  p_min_i : option Z; p_max_i : option Z; p_step_i : option Z;     (* strconv.Atoi *)
  p_min_f : option Z; p_max_f : option Z; p_step_f : option Z;     (* strconv.ParseFloat, bits *)
  p_step_empty : bool; p_list : list string }.

Inductive dist :=
| DUniform (lo hi : Z)            (* bits *)
| DDiscrete (lo hi q : Z)         (* bits *)
| DInt (lo hi : Z)
| DStepInt (lo hi step : Z)
| DCat (choices : list string).

Definition to_dist (p : pspec) : outcome dist :=
  match p_type p with
  | PDouble =>
      match p_max_f p, p_min_f p with
      | Some hi, Some lo =>
          if p_step_empty p then Ok (DUniform lo hi)
          else match p_step_f p with Some q => Ok (DDiscrete lo hi q) | None => Err 2 end
      | _, _ => Err 2
      end
  | PInt =>
      match p_max_i p, p_min_i p with
      | Some hi, Some lo =>
          if p_step_empty p then Ok (DInt lo hi)
          else match p_step_i p with Some st => Ok (DStepInt lo hi st) | None => Err 2 end
      | _, _ => Err 2
      end
  | PCategorical | PDiscrete => Ok (DCat (p_list p))
  | PUnknown => Err 2
  end.

Definition space := list (nat * dist).

Fixpoint to_search_space (ps : list pspec) : outcome space :=
  match ps with
  | [] => Ok []
  | p :: r =>
      match to_dist p with
      | Ok d => match to_search_space r with Ok sp => Ok ((p_name p, d) :: sp) | Err e => Err e | Crash c => Crash c end
      | Err e => Err e
      | Crash c => Crash c
      end
  end.

(* ------------------------------------------------------------------ settings (converter.go toGoptunaSampler) and validation *)

Record setting := Setting { s_name : string; s_value : string; s_atoi : option Z; s_float_ok : bool }.

Definition atoi_ok (s : setting) : bool := match s_atoi s with Some _ => true | None => false end.

(* [n_ei_candidates] below 1 is REJECTED here: this is the repaired behaviour proposed for finding `tpe-ei-candidates`
   (the pinned tree accepts it and later panics inside the TPE sampler); such inputs are keyed by the driver. *)
Definition setting_ok (alg : string) (s : setting) : bool :=
  if String.eqb alg "cmaes" then
    if String.eqb (s_name s) "random_state" then atoi_ok s
    else if String.eqb (s_name s) "sigma" then s_float_ok s
    else if String.eqb (s_name s) "restart_strategy" then
      String.eqb (s_value s) "ipop" || String.eqb (s_value s) "bipop" || String.eqb (s_value s) "none"
    else true
  else if String.eqb alg "tpe" then
    if String.eqb (s_name s) "random_state" then atoi_ok s
    else if String.eqb (s_name s) "n_startup_trials" then atoi_ok s
    else if String.eqb (s_name s) "n_ei_candidates" then match s_atoi s with Some n => 1 <=? n | None => false end
    else true
  else if String.eqb alg "sobol" then true
  else if String.eqb (s_name s) "random_state" then atoi_ok s else true.

Definition known_alg (alg : string) : bool :=
  String.eqb alg "random" || String.eqb alg "cmaes" || String.eqb alg "tpe" || String.eqb alg "sobol".

Definition is_numeric (p : pspec) : bool := match p_type p with PInt | PDouble => true | _ => false end.

Fixpoint has_dup (l : list nat) : bool :=
  match l with [] => false | a :: r => existsb (Nat.eqb a) r || has_dup r end.

(* service.go ValidateAlgorithmSettings: Err 1 = InvalidArgument, Err 2 = Internal *)
Definition validate (alg : string) (settings : list setting) (ps : list pspec) : outcome unit :=
  if negb (known_alg alg) then Err 1
  else if String.eqb alg "cmaes" && (length (filter is_numeric ps) <? 2)%nat then Err 1
  else if has_dup (map p_name ps) then Err 1
  else if negb (forallb (setting_ok alg) settings) then Err 2
  else match to_search_space ps with Ok _ => Ok tt | Err e => Err e | Crash c => Crash c end.

(* ------------------------------------------------------------------ sampleNextParam (sample.go) on given draws *)

(* external value of a parameter: what the reply carries / what goptuna stores in FrozenTrial.Params *)
Inductive rv := RInt (z : Z) | RFlt (bits : Z) | RStr (s : string).

Definition rv_eqb (a b : rv) : bool :=
  match a, b with
  | RInt x, RInt y => x =? y
  | RFlt x, RFlt y => nz x =? nz y
  | RStr x, RStr y => String.eqb x y
  | _, _ => false
  end.

(* Suggest* of goptuna/trial.go: pre-checks (Err 4), then ToExternalRepr of the stored draw *)
Definition sample_one (ds : dist) (d : draw) : outcome rv :=
  match ds with
  | DUniform lo hi => if f64_lt_bits hi lo then Err 4 else Ok (RFlt (d_bits d))
  | DDiscrete lo hi q => if f64_lt_bits hi lo then Err 4 else Ok (RFlt (ext_dstep_bits lo q (d_bits d)))
  | DInt lo hi => if hi <? lo then Err 4 else Ok (RInt (ext_int d))
  | DStepInt lo hi st => if hi <? lo then Err 4 else if st <=? 0 then Err 4 else Ok (RInt (ext_stepint lo st d))
  | DCat choices =>
      match choices with
      | [] => Err 4
      | _ => match ext_cat choices d with Ok c => Ok (RStr c) | Err e => Err e | Crash c => Crash c end
      end
  end.

Fixpoint lookup_draw (n : nat) (l : list (nat * draw)) : option draw :=
  match l with [] => None | (m, d) :: r => if Nat.eqb m n then Some d else lookup_draw n r end.

(* one new trial: every parameter of the search space, in the order of the parameter list (Go iterates a map: compared as sets) *)
Fixpoint sample_params (sp : space) (dr : list (nat * draw)) : outcome (list (nat * rv)) :=
  match sp with
  | [] => Ok []
  | (n, ds) :: r =>
      match lookup_draw n dr with
      | None => Err 9                     (* the sampler stored no value: not modelled *)
      | Some d =>
          match sample_one ds d with
          | Ok v => match sample_params r dr with Ok l => Ok ((n, v) :: l) | Err e => Err e | Crash c => Crash c end
          | Err e => Err e
          | Crash c => Crash c
          end
      end
  end.

(* ------------------------------------------------------------------ the study and the trial mapping *)

Inductive gstate := GRunning | GComplete | GPruned | GFail.

Definition gstate_eqb (a b : gstate) : bool :=
  match a, b with GRunning, GRunning | GComplete, GComplete | GPruned, GPruned | GFail, GFail => true | _, _ => false end.

Definition finished (g : gstate) : bool := negb (gstate_eqb g GRunning).

(* FrozenTrial.Params as a finite map over the parameter list: one entry per parameter of the search space *)
Definition params := list (option rv).

Definition params_eqb : params -> params -> bool := list_eqb (option_eqb rv_eqb).

Record gtrial := GT { g_params : params; g_state : gstate; g_value : Z }.

(* goptuna trial id = index in [gts];  [mp] = trialMapping (Katib trial name -> goptuna trial id) in insertion order *)
Record st := St { gts : list gtrial; mp : list (nat * nat) }.

Definition init : st := St [] [].

(* ------------------------------------------------------------------ Katib trials of a request (converter.go) *)

Record kassign := KA { a_name : nat; a_str : string; a_int : option Z; a_flt : option Z }.  (* ParseInt / ParseFloat(bits) of a_str *)

Record ktrial := KT {
  k_name : nat; k_cond : nat;                 (* api TrialConditionType: 0 CREATED 1 RUNNING 2 SUCCEEDED 3 KILLED 4 FAILED 5 METRICSUNAVAILABLE 6 EARLYSTOPPED 7 UNKNOWN *)
  k_ts_ok : bool;                             (* both non-empty timestamps parse (time.Parse RFC3339Nano) *)
  k_metrics : list (nat * option Z);          (* observation metrics: name, ParseFloat(value) bits *)
  k_assigns : list kassign }.

(* toGoptunaState *)
Definition to_gstate (c : nat) : outcome gstate :=
  match c with
  | 0%nat | 1%nat => Ok GRunning
  | 2%nat => Ok GComplete
  | 4%nat => Ok GFail
  | 6%nat => Ok GPruned
  | _ => Err 2
  end.

(* getFinalMetric: the last metric carrying the objective's name *)
Definition final_metric (obj : nat) (ms : list (nat * option Z)) : outcome Z :=
  match find (fun m => Nat.eqb (fst m) obj) (rev ms) with
  | Some (_, Some z) => Ok z
  | Some (_, None) => Err 2           (* strconv.ParseFloat failed *)
  | None => Err 2                     (* "No objective metric in Trial" *)
  end.

Fixpoint lookup_dist (n : nat) (sp : space) : option dist :=
  match sp with [] => None | (m, d) :: r => if Nat.eqb m n then Some d else lookup_dist n r end.

Fixpoint index_of (s : string) (l : list string) : option nat :=
  match l with [] => None | a :: r => if String.eqb a s then Some 0%nat else option_map S (index_of s r) end.

Definition int_draw (p : Z) : draw := Draw p 0 0.

(* toGoptunaParams, one assignment: None = name not in the search space (skipped) *)
Definition conv_assign (sp : space) (a : kassign) : outcome (option (nat * rv)) :=
  match lookup_dist (a_name a) sp with
  | None => Ok None
  | Some (DUniform _ _) => match a_flt a with Some b => Ok (Some (a_name a, RFlt b)) | None => Err 2 end
  | Some (DDiscrete lo _ q) => match a_flt a with Some b => Ok (Some (a_name a, RFlt (ext_dstep_bits lo q b))) | None => Err 2 end
  | Some (DInt _ _) => match a_int a with Some p => Ok (Some (a_name a, RInt (ext_int (int_draw p)))) | None => Err 2 end
  | Some (DStepInt lo _ stp) => match a_int a with Some p => Ok (Some (a_name a, RInt (ext_stepint lo stp (int_draw p)))) | None => Err 2 end
  | Some (DCat choices) => match index_of (a_str a) choices with Some _ => Ok (Some (a_name a, RStr (a_str a))) | None => Err 2 end
  end.

Fixpoint conv_assigns (sp : space) (l : list kassign) : outcome (list (nat * rv)) :=
  match l with
  | [] => Ok []
  | a :: r =>
      match conv_assign sp a with
      | Ok o => match conv_assigns sp r with
                | Ok m => Ok (match o with Some e => e :: m | None => m end)
                | Err e => Err e | Crash c => Crash c end
      | Err e => Err e
      | Crash c => Crash c
      end
  end.

(* the Go map: a later assignment of the same name overwrites an earlier one *)
Fixpoint lookup_last (n : nat) (m : list (nat * rv)) : option rv :=
  match m with
  | [] => None
  | (k, v) :: r => match lookup_last n r with Some w => Some w | None => if Nat.eqb k n then Some v else None end
  end.

Definition params_of (sp : space) (m : list (nat * rv)) : params := map (fun e => lookup_last (fst e) m) sp.

Record ftrial := FT { f_name : nat; f_state : gstate; f_value : Z; f_params : params }.

(* toGoptunaTrials, one trial *)
Definition conv_trial (sp : space) (obj : nat) (k : ktrial) : outcome ftrial :=
  if negb (k_ts_ok k) then Err 2
  else match to_gstate (k_cond k) with
       | Ok gs =>
           match (if gstate_eqb gs GComplete then final_metric obj (k_metrics k) else Ok 0) with
           | Ok v =>
               match conv_assigns sp (k_assigns k) with
               | Ok m => Ok (FT (k_name k) gs v (params_of sp m))
               | Err e => Err e | Crash c => Crash c
               end
           | Err e => Err e | Crash c => Crash c
           end
       | Err e => Err e | Crash c => Crash c
       end.

Fixpoint conv_trials (sp : space) (obj : nat) (l : list ktrial) : outcome (list ftrial) :=
  match l with
  | [] => Ok []
  | k :: r =>
      match conv_trial sp obj k with
      | Ok f => match conv_trials sp obj r with Ok fs => Ok (f :: fs) | Err e => Err e | Crash c => Crash c end
      | Err e => Err e
      | Crash c => Crash c
      end
  end.

(* ------------------------------------------------------------------ syncTrials (service.go), findGoptunaTrialIDByParam (sample.go) *)

Fixpoint lookup_map (n : nat) (m : list (nat * nat)) : option nat :=
  match m with [] => None | (k, g) :: r => if Nat.eqb k n then Some g else lookup_map n r end.

Definition mapped_gid (m : list (nat * nat)) (g : nat) : bool := existsb (fun e => Nat.eqb (snd e) g) m.

(* the candidate test of findGoptunaTrialIDByParam: Running, not yet mapped, reflect.DeepEqual(ktrial.Params, trial.Params) *)
Definition candidate (m : list (nat * nat)) (p : params) (i : nat) (g : gtrial) : bool :=
  gstate_eqb (g_state g) GRunning && negb (mapped_gid m i) && params_eqb p (g_params g).

(* "for i := len(trials)-1; i >= 0; i--": the LAST index passing the test *)
Fixpoint find_last_from {A} (f : nat -> A -> bool) (i : nat) (l : list A) : option nat :=
  match l with
  | [] => None
  | a :: r => match find_last_from f (S i) r with Some j => Some j | None => if f i a then Some i else None end
  end.

Definition find_gid (s : st) (p : params) : option nat := find_last_from (candidate (mp s) p) 0 (gts s).

Fixpoint set_nth {A} (i : nat) (x : A) (l : list A) : list A :=
  match l, i with
  | [], _ => []
  | _ :: r, O => x :: r
  | a :: r, S j => a :: set_nth j x r
  end.

(* body of the syncTrials loop after the trial id is known *)
Definition update (s : st) (g : nat) (f : ftrial) : outcome st :=
  match nth_error (gts s) g with
  | None => Err 5                                           (* ErrInvalidTrialID *)
  | Some gt =>
      if finished (g_state gt) then Ok s
      else if gstate_eqb (f_state f) (g_state gt) then Ok s
      else Ok (St (set_nth g (GT (g_params gt) (f_state f)
                                 (if gstate_eqb (f_state f) GComplete then f_value f else g_value gt)) (gts s)) (mp s))
  end.

Definition sync_one (s : st) (f : ftrial) : outcome st :=
  match lookup_map (f_name f) (mp s) with
  | Some g => update s g f
  | None =>
      match find_gid s (f_params f) with
      | None => Err 3                                       (* "Same parameter is not found for Trial" *)
      | Some g => update (St (gts s) (mp s ++ [(f_name f, g)])) g f
      end
  end.

(* Go iterates the map of converted trials in an unspecified order; the model takes the order of the list it is given,
   and the theorems hold for every order *)
Fixpoint sync (s : st) (fs : list ftrial) : outcome st :=
  match fs with
  | [] => Ok s
  | f :: r => match sync_one s f with Ok s1 => sync s1 r | Err e => Err e | Crash c => Crash c end
  end.

(* ------------------------------------------------------------------ GetSuggestions (service.go) *)

Definition reply := list (list (nat * rv)).

(* the sampling loop: one goptuna trial (Running) per requested assignment, with the external values as its Params *)
Fixpoint sample_n (sp : space) (s : st) (n : nat) (draws : list (list (nat * draw))) : outcome (st * reply) :=
  match n with
  | O => Ok (s, [])
  | S n' =>
      match draws with
      | [] => Err 9
      | dr :: rest =>
          match sample_params sp dr with
          | Ok a =>
              match sample_n sp (St (gts s ++ [GT (map (fun e => Some (snd e)) a) GRunning 0]) (mp s)) n' rest with
              | Ok (s', rep) => Ok (s', a :: rep)
              | Err e => Err e | Crash c => Crash c
              end
          | Err e => Err e
          | Crash c => Crash c
          end
      end
  end.

Definition get_suggestions (sp : space) (obj : nat) (s : st) (kts : list ktrial) (n : nat) (draws : list (list (nat * draw)))
  : outcome (st * reply) :=
  match conv_trials sp obj kts with
  | Ok fs =>
      match sync s fs with
      | Ok s1 => sample_n sp s1 n draws
      | Err e => Err e | Crash c => Crash c
      end
  | Err e => Err e
  | Crash c => Crash c
  end.
