(* C13 — executable model of the file metrics collector
     /repo/pkg/metricscollector/v1beta1/file-metricscollector/file-metricscollector.go
       CollectObservationLog, parseLogsInTextFormat, parseLogsInJsonFormat, newObservationLog, parseTimestamp,
       GetFilterRegexpList
     /repo/pkg/metricscollector/v1beta1/common/const.go   (DefaultFilter, TimeStampJsonKey)
   Text is real: byte strings ([str] = list ascii).  Modelled in Gallina: strings.Split on "\n", strings.Contains,
   strings.SplitN(line, " ", 2), strings.TrimSpace, strings.Split on ".", strconv.ParseInt(_, 10, 64), and
   time.Unix(sec, nsec).UTC().Format(RFC3339Nano) for years 1..9999.
   Outside the model (Section variables; the harness supplies their results on the generated inputs):
     regexp.Compile / FindAllStringSubmatch, time.Parse(RFC3339Nano, _) as a success flag, json.Unmarshal into
     map[string]interface{} (+ strconv.FormatFloat(f, 'f', -1, 64) on numbers).
   No proofs in this file. *)
From KV Require Export Base.Prelude Base.Bytes.
Open Scope Z_scope.

(* time.Time{}.UTC().Format(time.RFC3339) *)
Definition zero_time : str := B "0001-01-01T00:00:00Z".
(* consts.UnavailableMetricValue *)
Definition unavailable : str := B "unavailable".
(* common.TimeStampJsonKey *)
Definition timestamp_key : str := B "timestamp".

(* A reported timestamp: a text copied from the log, or the instant (ns since the Unix epoch) handed to time.Unix. *)
Inductive tstamp := TsText (s : str) | TsUnix (ns : Z).

Record mlog := MLog { ts : tstamp; mname : str; mvalue : str }.

(* ------------------------------------------------------------------ time.Unix(sec,nsec).UTC().Format(RFC3339Nano) *)

(* days since 1970-01-01 -> (year, month, day), proleptic Gregorian calendar *)
Definition civil_from_days (z0 : Z) : Z * Z * Z :=
  let z := z0 + 719468 in
  let era := z / 146097 in
  let doe := z - era * 146097 in
  let yoe := (doe - doe / 1460 + doe / 36524 - doe / 146096) / 365 in
  let y := yoe + era * 400 in
  let doy := doe - (365 * yoe + yoe / 4 - yoe / 100) in
  let mp := (5 * doy + 2) / 153 in
  let d := doy - (153 * mp + 2) / 5 + 1 in
  let m := if mp <? 10 then mp + 3 else mp - 9 in
  (if m <=? 2 then y + 1 else y, m, d).

Fixpoint strip_zeros_rev (s : str) : str :=   (* on the reversed digit string *)
  match s with
  | c :: r => if byte_is 48 c then strip_zeros_rev r else s
  | [] => []
  end.

Definition frac_text (nano : Z) : str :=
  if nano =? 0 then [] else B "." ++ rev (strip_zeros_rev (rev (pad_digits 9 nano))).

Definition format_instant (ns : Z) : str :=
  let sec := ns / 10 ^ 9 in
  let nano := ns mod 10 ^ 9 in
  let days := sec / 86400 in
  let sod := sec mod 86400 in
  let '(y, m, d) := civil_from_days days in
  pad_digits 4 y ++ B "-" ++ pad_digits 2 m ++ B "-" ++ pad_digits 2 d ++ B "T" ++
  pad_digits 2 (sod / 3600) ++ B ":" ++ pad_digits 2 (sod mod 3600 / 60) ++ B ":" ++ pad_digits 2 (sod mod 60) ++
  frac_text nano ++ B "Z".

Definition render (t : tstamp) : str :=
  match t with TsText s => s | TsUnix ns => format_instant ns end.

(* ------------------------------------------------------------------ JSON values as json.Unmarshal delivers them *)

Inductive jval :=
| JString (s : str)
| JNumber (repr : str)     (* a float64, given as strconv.FormatFloat(f, 'f', -1, 64) prints it *)
| JOther.                  (* bool, null, array, object *)

Inductive jline :=
| JBad                              (* json.Unmarshal into map[string]interface{} returns an error *)
| JObj (kvs : list (str * jval)).   (* the decoded map (keys distinct); a JSON null gives the nil map = JObj [] *)

Fixpoint jlookup (k : str) (kvs : list (str * jval)) : option jval :=
  match kvs with
  | [] => None
  | (k', v) :: r => if str_eqb k k' then Some v else jlookup k r
  end.

(* parseTimestamp, numeric branch: the (sec, nsec) pair given to time.Unix, as one instant in ns *)
Definition dot : ascii := "."%char.

Definition epoch_instant (repr : str) : option Z :=
  let t := split_on dot repr in                 (* strings.Split(stringTimestamp, ".") *)
  match parse_int64 (hd [] t) with              (* strconv.ParseInt(t[0], 10, 64) *)
  | None => None
  | Some sec =>
      if Nat.eqb (length t) 2 then              (* len(t) == 2 *)
        match parse_int64 (nth 1 t []) with     (* strconv.ParseInt(t[1], 10, 64)  -- digits read as NANOSECONDS *)
        | None => None
        | Some nsec => Some (sec * 10 ^ 9 + nsec)
        end
      else Some (sec * 10 ^ 9)
  end.

(* the tracked names, each once, in the order of first listing *)
Fixpoint dedup (seen : list str) (ms : list str) : list str :=
  match ms with
  | [] => []
  | m :: r => if mem m seen then dedup seen r else m :: dedup (m :: seen) r
  end.

Section LogParse.
  Variable filt : Type.
  Variable default_filter : filt.                         (* common.DefaultFilter *)
  Variable compiles : filt -> bool.                       (* regexp.Compile(f) succeeded (else the list holds a nil *Regexp) *)
  Variable matches : filt -> str -> list (list str).      (* FindAllStringSubmatch(line, -1): one list of groups per match *)
  Variable rfc3339 : str -> bool.                           (* time.Parse(time.RFC3339Nano, s) succeeds *)
  Variable decode : str -> jline.                           (* json.Unmarshal([]byte(line), &map[string]interface{}) *)

  (* GetFilterRegexpList *)
  Definition effective (fs : list filt) : list filt :=
    match fs with [] => [default_filter] | _ => fs end.

  (* ---------------------------------------------------------------- newObservationLog *)
  Definition reports (obj : str) (mlogs : list mlog) : bool := existsb (fun r => str_eqb (mname r) obj) mlogs.

  Definition new_observation_log (ms : list str) (mlogs : list mlog) : outcome (list mlog) :=
    match ms with
    | [] => Crash 1            (* metrics[0]: index out of range *)
    | obj :: _ => if reports obj mlogs then Ok mlogs else Ok [MLog (TsText zero_time) obj unavailable]
    end.

  (* ---------------------------------------------------------------- parseLogsInTextFormat *)

  (* the pre-filter: some tracked name occurs in the line *)
  Definition is_metric_line (ms : list str) (l : str) : bool := existsb (fun m => containsb m l) ms.

  (* timestamp of a line: its first space-separated field when that parses as RFC3339, else the zero time *)
  Definition line_timestamp (l : str) : str :=
    match split_space l with
    | None => zero_time
    | Some (a, _) => if rfc3339 a then a else zero_time
    end.

  (* for _, m := range metrics { if name != m {continue}; append; break } *)
  Fixpoint metric_loop (t : tstamp) (name value : str) (ms : list str) : list mlog :=
    match ms with
    | [] => []
    | m :: r => if str_eqb name m then [MLog t name value] else metric_loop t name value r
    end.

  Definition kev_records (t : tstamp) (ms : list str) (kev : list str) : list mlog :=
    match kev with
    | _ :: n :: v :: _ => metric_loop t (trim_space n) (trim_space v) ms
    | _ => []                                                (* len(kevList) < 3 *)
    end.

  Fixpoint filters_records (t : tstamp) (ms : list str) (l : str) (fs : list filt) : outcome (list mlog) :=
    match fs with
    | [] => Ok []
    | f :: r =>
        if compiles f then
          match filters_records t ms l r with
          | Ok rest => Ok (flat_map (kev_records t ms) (matches f l) ++ rest)
          | e => e
          end
        else Crash 2           (* method call on a nil *regexp.Regexp *)
    end.

  Fixpoint text_lines (ms : list str) (fs : list filt) (lines : list str) : outcome (list mlog) :=
    match lines with
    | [] => Ok []
    | l :: r =>
        if is_metric_line ms l then
          match filters_records (TsText (line_timestamp l)) ms l fs with
          | Ok a => match text_lines ms fs r with Ok b => Ok (a ++ b) | e => e end
          | e => e
          end
        else text_lines ms fs r
    end.

  Definition parse_text (ms : list str) (fs : list filt) (lines : list str) : outcome (list mlog) :=
    match text_lines ms (effective fs) lines with
    | Ok mlogs => new_observation_log ms mlogs
    | e => e
    end.

  (* ---------------------------------------------------------------- parseTimestamp / parseLogsInJsonFormat *)

  (* None stands for the "" that parseTimestamp returns on failure *)
  Definition parse_timestamp (v : jval) : option tstamp :=
    match v with
    | JString s => if str_eqb s [] then None else if rfc3339 s then Some (TsText s) else None
    | JNumber repr => match epoch_instant repr with Some ns => Some (TsUnix ns) | None => None end
    | JOther => None
    end.

  Definition json_timestamp (kvs : list (str * jval)) : tstamp :=
    match jlookup timestamp_key kvs with
    | None => TsText zero_time
    | Some v => match parse_timestamp v with Some t => t | None => TsText zero_time end
    end.

  (* The loop over the tracked names in its REPAIRED form (docs/proposed_fixes/new-json-duplicate-metric.diff):
       for i, m := range metrics { if slices.Contains(metrics[:i], m) {continue};
                                   value, ok := jsonObj[m].(string); if !ok {continue}; append }
     The pinned tree has no such guard (and no break): see [json_records_pinned] below.  The two coincide when no
     name is listed twice; inputs with a repeated name are the known-finding domain json-duplicate-metric, on which
     the model is not compared with the implementation while the finding is open. *)
  Definition json_records (ms : list str) (kvs : list (str * jval)) : list mlog :=
    flat_map (fun m => match jlookup m kvs with
                       | Some (JString v) => [MLog (json_timestamp kvs) m v]
                       | _ => []
                       end) (dedup [] ms).

  (* the loop exactly as written in the pinned tree:
       for _, m := range metrics { value, ok := jsonObj[m].(string); if !ok {continue}; append } *)
  Definition json_records_pinned (ms : list str) (kvs : list (str * jval)) : list mlog :=
    flat_map (fun m => match jlookup m kvs with
                       | Some (JString v) => [MLog (json_timestamp kvs) m v]
                       | _ => []
                       end) ms.

  Fixpoint json_lines (ms : list str) (lines : list str) : outcome (list mlog) :=
    match lines with
    | [] => Ok []
    | l :: r =>
        match l with
        | [] => json_lines ms r                       (* len(logline) == 0 *)
        | _ => match decode l with
               | JBad => Err 1                        (* errParseJson *)
               | JObj kvs => match json_lines ms r with Ok b => Ok (json_records ms kvs ++ b) | e => e end
               end
        end
    end.

  Definition parse_json (ms : list str) (lines : list str) : outcome (list mlog) :=
    match json_lines ms lines with
    | Ok mlogs => new_observation_log ms mlogs
    | e => e
    end.

  (* ---------------------------------------------------------------- CollectObservationLog (file already read) *)
  Definition newline : ascii := ascii_of_nat 10.
  Definition split_lines (content : str) : list str := split_on newline content.

  Inductive format := TEXT | JSON | OtherFormat.

  Definition collect (fmt : format) (ms : list str) (fs : list filt) (content : str) : outcome (list mlog) :=
    match fmt with
    | OtherFormat => Err 2                            (* errFileFormat *)
    | TEXT => parse_text ms fs (split_lines content)
    | JSON => parse_json ms (split_lines content)
    end.

  (* ================================================================== specification side
     What the property says should be reported, written as comprehensions with no pre-filter, no loops with
     break and no error plumbing.  The theorems of Props/C13.v equate the model above with these. *)

  Definition spec_kev (t : tstamp) (ms : list str) (kev : list str) : list mlog :=
    match kev with
    | _ :: n :: v :: _ => if mem (trim_space n) ms then [MLog t (trim_space n) (trim_space v)] else []
    | _ => []
    end.

  (* occurrences of tracked names in one line: filter by filter, match by match *)
  Definition spec_line (ms : list str) (fs : list filt) (l : str) : list mlog :=
    flat_map (fun f => flat_map (spec_kev (TsText (line_timestamp l)) ms) (matches f l)) fs.

  Definition fallback (ms : list str) (found : list mlog) : list mlog :=
    match ms with
    | [] => found
    | obj :: _ => if reports obj found then found else [MLog (TsText zero_time) obj unavailable]
    end.

  Definition spec_text (ms : list str) (fs : list filt) (lines : list str) : list mlog :=
    fallback ms (flat_map (spec_line ms (effective fs)) lines).

  Definition nonempty (l : str) : bool := match l with [] => false | _ => true end.

  Definition spec_json_line (ms : list str) (l : str) : list mlog :=
    match decode l with JObj kvs => json_records ms kvs | JBad => [] end.

  Definition spec_json (ms : list str) (lines : list str) : list mlog :=
    fallback ms (flat_map (spec_json_line ms) (filter nonempty lines)).

  Definition malformed (l : str) : bool := nonempty l && match decode l with JBad => true | JObj _ => false end.

End LogParse.
