(* C19 — the SQL argument of a database call site, as an expression tree printed by harness/cmd/xlate-sql from the Go
   source (go/ast + go/types), and its semantics.

   The tree says HOW the text handed to Exec / Query / QueryRow / Prepare is assembled:
     XLit     a string literal or constant expression (named constants resolved by the type checker)
     XCat     a + b
     XSprintf fmt.Sprintf(format, i1 … in) with a constant format whose only verbs are %d (and %%) and n arguments of
              integer type
     XSlice   a[lo:hi] (the bounds are integers)
     XVar     a local string variable of the enclosing function, given by the right-hand sides of ALL its assignments in
              that function (x := e, x = e; x += e is printed as XCat XSelf e); which of them execute, and in what
              order, is control flow
     XSelf    inside the assignments of a variable: its current value
     XOther   anything else — a parameter, a field, a call, a conversion …: its value is string DATA

   A [run] is one execution: the control path (which assignment executes next) and the integers involved (Sprintf
   arguments, slice bounds). [eval data r e] is the text produced along run [r] when the opaque sub-expressions evaluate
   as [data] says. An expression is [data_free] when it contains no XOther; Proofs/SqlExprP.v shows that its text then
   does not depend on [data] at all: it is determined by the run, i.e. by integers and branch decisions. *)
From KV Require Export Base.Prelude.
From Coq Require Import DecimalString.
Local Open Scope string_scope.

Inductive sx :=
| XLit (s : string)
| XCat (a b : sx)
| XSelf
| XSprintf (fmt : string) (n : nat)
| XSlice (a : sx)
| XVar (name : string) (defs : list sx)
| XOther (descr : string).

Inductive run :=
| RUnit                                  (* literals, XSelf, XOther *)
| RInts (zs : list Z)                    (* the integer arguments of a Sprintf *)
| RCat (r1 r2 : run)
| RSlice (lo hi : nat) (r : run)
| RNil                                   (* a variable that has not been assigned yet: "" *)
| RStep (i : nat) (ri : run) (before : run).   (* a variable: after the history [before], assignment number i executes along ri *)

Definition zdec (z : Z) : string := NilZero.string_of_int (Z.to_int z).

(* fmt.Sprintf restricted to the verbs %d and %% *)
Fixpoint sprintf (fmt : string) (zs : list Z) : string :=
  match fmt with
  | EmptyString => EmptyString
  | String "%"%char (String "d"%char r) =>
      match zs with
      | z :: zs' => zdec z ++ sprintf r zs'
      | [] => "%!d(MISSING)" ++ sprintf r []
      end
  | String "%"%char (String "%"%char r) => String "%"%char (sprintf r zs)
  | String c r => String c (sprintf r zs)
  end.

Fixpoint eval (data : string -> string) (self : string) (r : run) (e : sx) {struct r} : string :=
  match e, r with
  | XLit s, _ => s
  | XSelf, _ => self
  | XOther k, _ => data k
  | XCat a b, RCat r1 r2 => eval data self r1 a ++ eval data self r2 b
  | XSprintf fmt _, RInts zs => sprintf fmt zs
  | XSlice a, RSlice lo hi r' => substring lo (hi - lo) (eval data self r' a)
  | XVar _ _, RNil => ""
  | XVar nm defs, RStep i ri before => eval data (eval data self before (XVar nm defs)) ri (nth i defs (XLit ""))
  | _, _ => ""
  end.

Fixpoint data_free (e : sx) : bool :=
  match e with
  | XLit _ | XSelf | XSprintf _ _ => true
  | XCat a b => data_free a && data_free b
  | XSlice a => data_free a
  | XVar _ defs => forallb data_free defs
  | XOther _ => false
  end.

(* one call site *)
Record site := Site {
  s_pkg : string;        (* package directory below pkg/db/v1beta1 *)
  s_func : string;       (* enclosing function or method *)
  s_recv : string;       (* static type of the receiver of the call *)
  s_method : string;     (* Exec | ExecContext | Query | QueryContext | QueryRow | QueryRowContext | Prepare | PrepareContext *)
  s_expr : sx            (* the SQL argument *)
}.

Definition site_ok (s : site) : bool := data_free (s_expr s).
