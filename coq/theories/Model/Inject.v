(* Model of the pod mutating webhook (C12):
     pkg/webhook/v1beta1/pod/inject_webhook.go   Handle, MutationRequired, Mutate, getMetricsCollectorContainer,
                                                 getKatibJob, getMetricsCollectorArgs, mutateSuggestionVolume
     pkg/webhook/v1beta1/pod/utils.go            isPrimaryPod, getPrimaryContainerIndex, getContainerCommand, getMountPath,
                                                 needWrapWorkerContainer, wrapWorkerContainer, getEarlyStoppingCommand,
                                                 getMarkCompletedCommand, addContainerVolumeMount, mutateMetricsCollectorVolume,
                                                 mutatePodMetadata, mutatePodEnv, getSidecarContainerName
     pkg/webhook/v1beta1/pod/const.go            TrialKind, TrialAPIVersion, NeedWrapWorkerMetricsCollectorList
     pkg/util/v1beta1/katibconfig/config.go      GetMetricsCollectorConfigData (lookup part; the YAML decoding is a library call)

   Everything is real text ([string]); nothing is interned.
   NOT modelled, supplied by the harness inside the case ("library results"):
     - named Go constants ([consts]); format strings and the literals "sh", "bash", "-c", "||", "&&" are transcribed here
     - schema.ParseGroupVersion on every owner reference ([r_gv]; None = parse error)
     - client.Get = lookup in the lists of objects the harness put into the fake cluster
     - the decoded and defaulted katib-config ([config]); strings.TrimSpace(image) = "" ([mc_image_blank])
     - filepath.Dir / filepath.Join on the metrics path ([pathlib], a finite table) and Join(experiment, trial) ([t_ckpt])
     - strconv.Itoa of a rule's start step ([er_step]); util.GetEarlyStoppingEndpoint, GetSuggestionPersistentVolumeClaimName
     - the image configuration fetched from a registry when a container has no command ([w_img]; None = the fetch failed)
     - all fields of pods/containers/volumes/env vars the webhook never reads: their JSON text is interned by the harness
       per case into a [nat] ([*_rest], [c_resources], [c_secctx], [EV], [VOther]); 0 is the empty / nil value
   REPAIRED behaviour is modelled for the two defects F5 / F5b of the pinned tree (see findings.d/C12.json):
     F5  Mutate reports mutatePodEnv's error only after the non-primary-pod and Push-collector exits
     F5b wrapWorkerContainer reads args[1] only when it exists *)
From KV Require Import Base.Prelude.
Open Scope string_scope.
Open Scope list_scope.

Notation "a +++ b" := (String.append a b) (at level 60, right associativity).

Definition labels := list (string * string).

(* ------------------------------------------------------------------ constants passed by the harness *)
Record consts := Consts {
  k_trial_kind : string;        (* pod.TrialKind *)
  k_trial_api : string;         (* pod.TrialAPIVersion *)
  k_label_trial : string;       (* consts.LabelTrialName *)
  k_label_experiment : string;  (* consts.LabelExperimentName *)
  k_env_trial : string;         (* consts.EnvTrialName *)
  k_default_file_path : string; (* common.DefaultFilePath *)
  k_text_format : string;       (* common.TextFormat *)
  k_metrics_volume : string;    (* common.MetricsVolume *)
  k_logger_name : string;       (* mccommon.MetricLoggerCollectorContainerName *)
  k_collector_name : string;    (* mccommon.MetricCollectorContainerName *)
  k_db_addr : string;           (* katibmanagerv1beta1.GetDBManagerAddr() *)
  k_completed : string;         (* mccommon.TrainingCompleted *)
  k_early_stopped : string;     (* mccommon.TrainingEarlyStopped *)
  k_sugg_mount_key : string;    (* consts.SuggestionVolumeMountKey *)
  k_sugg_volume : string        (* consts.ContainerSuggestionVolumeName *)
}.

(* ------------------------------------------------------------------ cluster objects read by the ownership walk *)
Record oref := ORef { r_api : string; r_gv : option (string * string); r_kind : string; r_name : string }.
Record object := Obj { o_gv : string * string; o_kind : string; o_ns : string; o_name : string; o_owners : list oref }.

(* ------------------------------------------------------------------ pods *)
Inductive envval := EV (blob : nat) | EFieldRef (path : string).
Record envvar := Env { e_name : string; e_val : envval }.
Record mount := Mount { m_name : string; m_path : string; m_sub : string; m_rest : nat }.
Record container := Ctr {
  c_name : string; c_image : string; c_command : list string; c_args : list string;
  c_env : list envvar; c_mounts : list mount;
  c_pull : string; c_resources : nat; c_secctx : nat; c_rest : nat }.
Inductive vsource := VEmptyDir | VPVC (claim : string) | VOther (blob : nat).
Record volume := Vol { v_name : string; v_src : vsource }.
Record pod := Pod {
  p_kind : string;              (* TypeMeta.Kind of the pod as the webhook received it *)
  p_name : string;
  p_labels : labels;
  p_owners : list oref;
  p_containers : list container;
  p_volumes : list volume;
  p_share : option bool;        (* spec.shareProcessNamespace *)
  p_rest : nat }.

(* ------------------------------------------------------------------ trials, suggestions, katib-config *)
Inductive ckind := KStdOut | KFile | KTfEvent | KPrometheus | KCustom | KPush | KOther.
Record fspath := FsPath { fp_path : string; fp_is_file : bool (* Kind == common.FileKind *); fp_format : string }.
Record source := Source { s_fs : option fspath; s_formats : list string (* Filter.MetricsFormat; nil Filter = [] *) }.
Record esrule := Rule { er_name : string; er_value : string; er_cmp : string; er_step : string }.
Record trial := Trial {
  t_name : string; t_ns : string; t_labels : labels;
  t_primary_container : string;
  t_primary_pod_labels : labels;     (* nil and empty behave alike: every pod is primary *)
  t_kind : ckind; t_kind_text : string;
  t_custom : option container;
  t_source : option source;
  t_obj_type : string; t_obj_metric : string; t_add_metrics : list string;
  t_rules : list esrule;
  t_ckpt : string }.                 (* filepath.Join(experiment label value, trial name) *)
Record suggestion := Sugg { sg_name : string; sg_ns : string; sg_settings : list (string * string);
                            sg_endpoint : string; sg_pvc : string }.
Record mcconfig := McCfg { mc_kind : string; mc_image : string; mc_image_blank : bool; mc_pull : string;
                           mc_resources : nat; mc_wait : option bool }.
Inductive config := CfgNoMap | CfgNoKey | CfgBad | Cfg (l : list mcconfig).

(* p |-> (filepath.Dir p, filepath.Join(p, "$$$$.pid"), filepath.Join(p, "$$.pid")) *)
Definition pathlib := list (string * (string * string * string)).

Record world := World {
  w_consts : consts;
  w_objects : list object;
  w_trials : list trial;
  w_suggestions : list suggestion;
  w_experiments : list (string * string);      (* (namespace, name) *)
  w_config : config;
  w_paths : pathlib;
  w_inject_secctx : bool;                      (* SidecarInjector.injectSecurityContext *)
  w_img : option (list string * list string)   (* registry image config: (Entrypoint, Cmd) *)
}.

(* ------------------------------------------------------------------ small helpers *)
Definition seqb (a b : string) : bool := String.eqb a b.

Fixpoint lookup_label (k : string) (l : labels) : option string :=
  match l with
  | [] => None
  | (k', v) :: r => if seqb k k' then Some v else lookup_label k r
  end.

(* m[k] = v on a Go map kept as an association list *)
Fixpoint set_label (k v : string) (l : labels) : labels :=
  match l with
  | [] => [(k, v)]
  | (k', v') :: r => if seqb k k' then (k, v) :: r else (k', v') :: set_label k v r
  end.

Fixpoint update_nth {A} (n : nat) (f : A -> A) (l : list A) : list A :=
  match l, n with
  | [], _ => []
  | a :: r, O => f a :: r
  | a :: r, S m => a :: update_nth m f r
  end.

Definition lib_entry (L : pathlib) (p : string) : string * string * string :=
  match find (fun e => seqb (fst e) p) L with Some e => snd e | None => ("", "", "") end.
Definition lib_dir (L : pathlib) (p : string) : string := fst (fst (lib_entry L p)).
Definition lib_pid (L : pathlib) (p : string) : string := snd (fst (lib_entry L p)).
Definition lib_cond (L : pathlib) (p : string) : string := snd (lib_entry L p).

(* ------------------------------------------------------------------ getKatibJob *)
Inductive walk := Found (kind name : string) | WErr (code : nat) | OutOfFuel.
Definition e_bad_api := 1.      (* errInvalidOwnerAPIVersion *)
Definition e_get := 2.          (* errFailedToGetTrialTemplateJob *)
Definition e_not_belong := 3.   (* errPodNotBelongToKatibJob *)

Definition is_trial_ref (K : consts) (r : oref) : bool :=
  seqb (r_kind r) (k_trial_kind K) && seqb (r_api r) (k_trial_api K).

Definition gv_eqb (a b : string * string) : bool := seqb (fst a) (fst b) && seqb (snd a) (snd b).

(* client.Get of an unstructured object with the owner's GVK and name in the pod's namespace *)
Definition find_object (cl : list object) (gv : string * string) (kind ns name : string) : option object :=
  find (fun o => gv_eqb (o_gv o) gv && seqb (o_kind o) kind && seqb (o_ns o) ns && seqb (o_name o) name) cl.

Definition resolve (cl : list object) (ns : string) (r : oref) : option object :=
  match r_gv r with
  | None => None
  | Some gv => find_object cl gv (r_kind r) ns (r_name r)
  end.

(* the nested-owner loop of getKatibJob; [rec] is the recursive call on the object that was read *)
Fixpoint walk_loop (cl : list object) (ns : string) (rec : object -> walk) (l : list oref) : walk :=
  match l with
  | [] => WErr e_not_belong
  | r :: rest =>
      match r_gv r with
      | None => WErr e_bad_api
      | Some gv =>
          match find_object cl gv (r_kind r) ns (r_name r) with
          | None => WErr e_get
          | Some o =>
              match rec o with
              | Found k n => Found k n
              | OutOfFuel => OutOfFuel
              | WErr _ => walk_loop cl ns rec rest    (* the error of a nested search is dropped: jobKind is "" *)
              end
          end
      end
  end.

(* The Go recursion does not terminate on a cyclic ownership graph; the model is fuelled and says so. *)
Fixpoint get_katib_job (K : consts) (cl : list object) (ns : string) (fuel : nat)
         (kind name : string) (owners : list oref) : walk :=
  match fuel with
  | O => OutOfFuel
  | S f =>
      (* first loop: some owner is the Trial => (object kind, object name); an empty kind falls through *)
      if existsb (is_trial_ref K) owners && negb (seqb kind "") then Found kind name
      else walk_loop cl ns (fun o => get_katib_job K cl ns f (o_kind o) (o_name o) (o_owners o)) owners
  end.

Definition walk_pod (W : world) (ns : string) (fuel : nat) (p : pod) : walk :=
  get_katib_job (w_consts W) (w_objects W) ns fuel (p_kind p) (p_name p) (p_owners p).

(* ------------------------------------------------------------------ MutationRequired *)
Definition e_fuel := 99.
Definition find_trial (W : world) (ns name : string) : option trial :=
  find (fun t => seqb (t_ns t) ns && seqb (t_name t) name) (w_trials W).

Definition mutation_required (W : world) (ns : string) (fuel : nat) (p : pod) : outcome bool :=
  match walk_pod W ns fuel p with
  | OutOfFuel => Err e_fuel
  | WErr _ => Ok false
  | Found _ job =>
      match find_trial W ns job with
      | None => Err 1
      | Some _ => Ok true
      end
  end.

(* ------------------------------------------------------------------ helpers of Mutate *)
Definition is_primary_pod (pod_labels primary : labels) : bool :=
  forallb (fun kv => match lookup_label (fst kv) pod_labels with
                     | Some v => seqb v (snd kv)
                     | None => false
                     end) primary.

Fixpoint primary_index (cs : list container) (name : string) : option nat :=
  match cs with
  | [] => None
  | c :: r => if seqb (c_name c) name then Some O
              else match primary_index r name with Some i => Some (S i) | None => None end
  end.

Definition mutate_labels (K : consts) (pl : labels) (t : trial) : labels :=
  set_label (k_label_trial K) (t_name t)
            (fold_left (fun acc kv => set_label (fst kv) (snd kv) acc) (t_labels t) pl).

Definition trial_env (K : consts) : envvar :=
  Env (k_env_trial K) (EFieldRef ("metadata.labels['" +++ k_label_trial K +++ "']")).

Definition add_env (e : envvar) (c : container) : container :=
  Ctr (c_name c) (c_image c) (c_command c) (c_args c) (c_env c ++ [e]) (c_mounts c)
      (c_pull c) (c_resources c) (c_secctx c) (c_rest c).

Definition add_mount (m : mount) (c : container) : container :=
  Ctr (c_name c) (c_image c) (c_command c) (c_args c) (c_env c) (c_mounts c ++ [m])
      (c_pull c) (c_resources c) (c_secctx c) (c_rest c).

Definition set_cmd (cmd args : list string) (c : container) : container :=
  Ctr (c_name c) (c_image c) cmd args (c_env c) (c_mounts c)
      (c_pull c) (c_resources c) (c_secctx c) (c_rest c).

(* mutatePodEnv: None = "Unable to find primary container" *)
Definition mutate_pod_env (K : consts) (cs : list container) (t : trial) : option (list container) :=
  match primary_index cs (t_primary_container t) with
  | Some i => Some (update_nth i (add_env (trial_env K)) cs)
  | None => None
  end.

Definition c_source_nil := 3.     (* Crash: mc.Source.FileSystemPath.Path with a nil Source / FileSystemPath *)
Definition c_custom_nil := 4.     (* Crash: *injectContainer with a nil CustomCollector *)
Definition c_args_empty := 2.     (* Crash: args[0] on an empty command line *)
Definition c_sugg_index := 5.     (* Crash: pod.Spec.Containers[-1] in mutateSuggestionVolume *)

(* getMountPath: (path, pathKind == FileKind) *)
Definition get_mount_path (K : consts) (t : trial) : outcome (string * bool) :=
  match t_kind t with
  | KStdOut => Ok (k_default_file_path K, true)
  | KFile => match t_source t with
             | Some (Source (Some fp) _) => Ok (fp_path fp, true)
             | _ => Crash c_source_nil
             end
  | KTfEvent => match t_source t with
                | Some (Source (Some fp) _) => Ok (fp_path fp, false)
                | _ => Crash c_source_nil
                end
  | KCustom => match t_source t with
               | Some (Source (Some fp) _) => Ok (fp_path fp, fp_is_file fp)
               | _ => Ok ("", false)
               end
  | _ => Ok ("", false)
  end.

Definition need_wrap (k : ckind) : bool :=
  match k with KStdOut | KTfEvent | KFile => true | _ => false end.

Definition sidecar_name (K : consts) (k : ckind) : string :=
  match k with KStdOut | KFile => k_logger_name K | _ => k_collector_name K end.

Definition metric_names (t : trial) : string :=
  fold_left (fun acc v => acc +++ ";" +++ v) (t_add_metrics t) (t_obj_metric t).

Definition rule_text (r : esrule) : string :=
  er_name r +++ ";" +++ er_value r +++ ";" +++ er_cmp r +++ ";" +++ er_step r.

Definition bool_text (b : bool) : string := if b then "true" else "false".

Definition find_suggestion (W : world) (ns name : string) : option suggestion :=
  find (fun s => seqb (sg_ns s) ns && seqb (sg_name s) name) (w_suggestions W).

Definition experiment_name (K : consts) (t : trial) : string :=
  match lookup_label (k_label_experiment K) (t_labels t) with Some v => v | None => "" end.

(* GetMetricsCollectorConfigData: the LAST entry of the kind wins *)
Definition find_mc_config (l : list mcconfig) (kind : string) : option mcconfig :=
  fold_left (fun acc c => if seqb (mc_kind c) kind then Some c else acc) l None.

Definition collector_config (W : world) (t : trial) : outcome mcconfig :=
  match w_config W with
  | CfgNoMap => Err 3
  | CfgNoKey => Err 4
  | CfgBad => Err 5
  | Cfg l => match find_mc_config l (t_kind_text t) with
             | None => Err 6
             | Some c => if mc_image_blank c then Err 7 else Ok c
             end
  end.

(* getMetricsCollectorArgs *)
Definition collector_args (W : world) (t : trial) (cfg : mcconfig) : outcome (list string) :=
  let K := w_consts W in
  match get_mount_path K t with
  | Crash s => Crash s
  | Err e => Err e
  | Ok (mp, _) =>
      let base := ["-t"; t_name t; "-m"; metric_names t; "-o-type"; t_obj_type t; "-s-db"; k_db_addr K] in
      let a_path := if seqb mp "" then [] else ["-path"; mp] in
      let a_filter := match t_source t with
                      | Some s => match s_formats s with [] => [] | fs => ["-f"; String.concat ";" fs] end
                      | None => []
                      end in
      let a_format := match t_kind t with
                      | KFile => match t_source t with
                                 | Some (Source (Some fp) _) => ["-format"; fp_format fp]
                                 | _ => []
                                 end
                      | KStdOut => ["-format"; k_text_format K]
                      | _ => []
                      end in
      let a_wait := match mc_wait cfg with Some b => ["-w"; bool_text b] | None => [] end in
      let pre := base ++ a_path ++ a_filter ++ a_format ++ a_wait in
      match t_rules t with
      | [] => Ok pre
      | rules =>
          match find_suggestion W (t_ns t) (experiment_name K t) with
          | None => Err 8
          | Some s => Ok (pre ++ flat_map (fun r => ["-stop-rule"; rule_text r]) rules ++ ["-s-earlystop"; sg_endpoint s])
          end
      end
  end.

(* getMetricsCollectorContainer, for the kinds other than Custom *)
Definition builtin_collector (W : world) (t : trial) (p : pod) : outcome container :=
  match collector_config W t with
  | Err e => Err e
  | Crash s => Crash s
  | Ok cfg =>
      match collector_args W t cfg with
      | Err e => Err e
      | Crash s => Crash s
      | Ok args =>
          let sec := if w_inject_secctx W
                     then match p_containers p with c :: _ => c_secctx c | [] => 0 end
                     else 0 in
          Ok (Ctr (sidecar_name (w_consts W) (t_kind t)) (mc_image cfg) [] args [] []
                  (mc_pull cfg) (mc_resources cfg) sec 0)
      end
  end.

(* getMetricsCollectorContainer *)
Definition collector_container (W : world) (t : trial) (p : pod) : outcome container :=
  match t_kind t with
  | KCustom => match t_custom t with Some c => Ok c | None => Crash c_custom_nil end
  | _ => builtin_collector W t p
  end.

(* mutateSuggestionVolume *)
Fixpoint checkpoint_path (key : string) (l : list (string * string)) : string :=
  match l with
  | [] => ""
  | (n, v) :: r => if seqb n key && negb (seqb v "") then v else checkpoint_path key r
  end.

Definition mutate_suggestion_volume (W : world) (t : trial) (cs : list container) (vs : list volume)
  : outcome (list container * list volume) :=
  let K := w_consts W in
  let en := experiment_name K t in
  if negb (existsb (fun e => seqb (fst e) (t_ns t) && seqb (snd e) en) (w_experiments W)) then Err 9 else
  match find_suggestion W (t_ns t) en with
  | None => Err 10
  | Some s =>
      let cp := checkpoint_path (k_sugg_mount_key K) (sg_settings s) in
      if seqb cp "" then Ok (cs, vs) else
      match primary_index cs (t_primary_container t) with
      | None => Crash c_sugg_index
      | Some i => Ok (update_nth i (add_mount (Mount (k_sugg_volume K) cp (t_ckpt t) 0)) cs,
                      vs ++ [Vol (k_sugg_volume K) (VPVC (sg_pvc s))])
      end
  end.

(* mutateMetricsCollectorVolume *)
Definition metrics_dir (W : world) (mp : string) (is_file : bool) : string :=
  if is_file then lib_dir (w_paths W) mp else mp.

Definition mutate_mc_volume (W : world) (cs : list container) (vs : list volume)
           (mp sidecar primary : string) (is_file : bool) : list container * list volume :=
  let K := w_consts W in
  let m := Mount (k_metrics_volume K) (metrics_dir W mp is_file) "" 0 in
  (map (fun c => if seqb (c_name c) sidecar || seqb (c_name c) primary then add_mount m c else c) cs,
   vs ++ [Vol (k_metrics_volume K) VEmptyDir]).

(* getContainerCommand *)
Definition container_command (W : world) (c : container) : outcome (list string) :=
  match c_command c with
  | _ :: _ => Ok (c_command c ++ c_args c)
  | [] => match w_img W with
          | None => Err 11
          | Some (entry, cmd) => Ok (entry ++ match c_args c with [] => cmd | a => a end)
          end
  end.

Definition es_command (W : world) (dir : string) : string :=
  "if test -f " +++ lib_pid (w_paths W) dir +++ " && [ $(head -n 1 " +++ lib_cond (w_paths W) dir +++ ") = " +++
  k_early_stopped (w_consts W) +++
  " ]; then echo Training Container was Early Stopped; else echo Training Container was Failed; exit 1; fi".

Definition completed_command (W : world) (dir : string) : string :=
  "echo " +++ k_completed (w_consts W) +++ " > " +++ lib_pid (w_paths W) dir.

Definition is_shell (s : string) : bool := seqb s "sh" || seqb s "bash".

(* the "sh -c" decision of wrapWorkerContainer (with the length guard of the F5b repair) *)
Definition split_shell (argv : list string) : list string * list string :=
  match argv with
  | a0 :: a1 :: rest => if is_shell a0 && seqb a1 "-c" then ([a0; a1], rest) else (["sh"; "-c"], argv)
  | _ => (["sh"; "-c"], argv)
  end.

Definition wrap_tail (W : world) (t : trial) (mp : string) (is_file : bool) : list string :=
  let dir := metrics_dir W mp is_file in
  (match t_kind t with KStdOut => ["1>" +++ mp +++ " 2>&1"] | _ => [] end) ++
  (match t_rules t with [] => [] | _ => ["||"; es_command W dir] end) ++
  ["&&"; completed_command W dir].

Definition wrap_container (W : world) (t : trial) (mp : string) (is_file : bool) (c : container) : outcome container :=
  match container_command W c with
  | Err e => Err e
  | Crash s => Crash s
  | Ok [] => Crash c_args_empty
  | Ok argv =>
      let '(cmd, payload) := split_shell argv in
      Ok (set_cmd cmd [String.concat " " (payload ++ wrap_tail W t mp is_file)] c)
  end.

Fixpoint wrap_at (W : world) (t : trial) (mp : string) (is_file : bool) (i : nat) (cs : list container)
  : outcome (list container) :=
  match cs, i with
  | [], _ => Ok []
  | c :: r, O => match wrap_container W t mp is_file c with
                 | Ok c' => Ok (c' :: r) | Err e => Err e | Crash s => Crash s end
  | c :: r, S j => match wrap_at W t mp is_file j r with
                   | Ok r' => Ok (c :: r') | Err e => Err e | Crash s => Crash s end
  end.

(* wrapWorkerContainer *)
Definition wrap_worker (W : world) (t : trial) (mp : string) (is_file : bool) (cs : list container)
  : outcome (list container) :=
  match primary_index cs (t_primary_container t) with
  | None => Err 12
  | Some i => wrap_at W t mp is_file i cs
  end.

(* ------------------------------------------------------------------ Mutate *)
Definition set_pod (p : pod) (l : labels) (cs : list container) (vs : list volume) (sh : option bool) : pod :=
  Pod (p_kind p) (p_name p) l (p_owners p) cs vs sh (p_rest p).

(* the end of Mutate: metrics volume, command wrapper *)
Definition finish_mutate (W : world) (t : trial) (p : pod) (l' : labels) (col : string)
           (cs3 : list container) (vs3 : list volume) : outcome pod :=
  match get_mount_path (w_consts W) t with
  | Err e => Err e
  | Crash s => Crash s
  | Ok (mp, is_file) =>
    let '(cs4, vs4) := if seqb mp "" then (cs3, vs3)
                       else mutate_mc_volume W cs3 vs3 mp col (t_primary_container t) is_file in
    if need_wrap (t_kind t) then
      match wrap_worker W t mp is_file cs4 with
      | Err e => Err e
      | Crash s => Crash s
      | Ok cs5 => Ok (set_pod p l' cs5 vs4 (Some true))
      end
    else Ok (set_pod p l' cs4 vs4 (Some true))
  end.

(* the part of Mutate after the Trial has been read *)
Definition mutate_with (W : world) (t : trial) (p : pod) : outcome pod :=
  let K := w_consts W in
  let l' := mutate_labels K (p_labels p) t in
  let env := mutate_pod_env K (p_containers p) t in
  let cs0 := match env with Some cs => cs | None => p_containers p end in
  if negb (is_primary_pod (p_labels p) (t_primary_pod_labels t)) then Ok (set_pod p l' cs0 (p_volumes p) (p_share p))
  else match t_kind t with
  | KPush => Ok (set_pod p l' cs0 (p_volumes p) (p_share p))
  | _ =>
    match env with
    | None => Err 2
    | Some cs1 =>
      match collector_container W t p with
      | Err e => Err e
      | Crash s => Crash s
      | Ok col =>
        match mutate_suggestion_volume W t (cs1 ++ [col]) (p_volumes p) with
        | Err e => Err e
        | Crash s => Crash s
        | Ok (cs3, vs3) => finish_mutate W t p l' (c_name col) cs3 vs3
        end
      end
    end
  end.

Definition mutate (W : world) (ns : string) (fuel : nat) (p : pod) : outcome pod :=
  match walk_pod W ns fuel p with
  | OutOfFuel => Err e_fuel
  | w =>
      let job := match w with Found _ n => n | _ => "" end in
      match find_trial W ns job with
      | None => Err 1
      | Some t => mutate_with W t p
      end
  end.

(* ------------------------------------------------------------------ Handle: what the API server sees *)
Inductive verdict :=
| Unchanged                    (* allowed, no patch *)
| Patched (p : pod)            (* allowed with the patch original -> p *)
| Rejected (stage code : nat)  (* stage 1 = MutationRequired (HTTP 500), 2 = Mutate (HTTP 400) *)
| Panicked (site : nat).

Definition handle (W : world) (ns : string) (fuel : nat) (p : pod) : verdict :=
  match mutation_required W ns fuel p with
  | Err e => Rejected 1 e
  | Crash s => Panicked s
  | Ok false => Unchanged
  | Ok true =>
      match mutate W ns fuel p with
      | Ok p' => Patched p'
      | Err e => Rejected 2 e
      | Crash s => Panicked s
      end
  end.
