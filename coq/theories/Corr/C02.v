(* C02: comparison functions evaluated on generated case files.
   [mismatches] : model vs implementation (correspondence)
   [violations] : the property monitor evaluated on the IMPLEMENTATION's output, written against the specification
                  functions ([render_subst], [meaning]) and not against the model of the code ([repl], [build_env]). *)
From KV Require Export Base.Prelude Model.Template Model.TrialInstance.
From KV Require Import Proofs.TemplateP Proofs.TemplateA.

(* ------------------------------------------------------------------ generator cases *)

Inductive tchunk := TL (s : string) | TP (s : string).       (* literal text | placeholder occurrence (its name) *)

Definition chunk_of (c : tchunk) : achunk :=
  match c with TL s => Lit (s2l s) | TP s => Ph (s2l s) end.
Definition chunks_of (l : list tchunk) : list achunk := map chunk_of l.

Inductive gsource := GInline | GConfigMap (keys : option (list string)) (path : string) (parses : bool).

Definition source_of (s : gsource) : source :=
  match s with
  | GInline => Inline
  | GConfigMap keys path parses => FromConfigMap (option_map (map s2l) keys) (s2l path) parses
  end.

Definition pairs_of (l : list (string * string)) : list (str * str) := map (fun p => (s2l (fst p), s2l (snd p))) l.

(* what was observed: string leaves (same positions as the template's), metadata.name, metadata.namespace, and whether the
   rest of the object (keys, nesting, non-string scalars) equals the template's *)
Record gobs := GObs { go_leaves : list string; go_name : string; go_ns : string; go_skeleton_same : bool }.

Record gcase := GCase {
  g_source : gsource;
  g_tps : list (string * string);
  g_assign : list (string * string);
  g_tname : string; g_tns : string; g_kind : string; g_apiv : string;
  g_annots : list (string * string);
  g_labels : list (string * string);
  g_leaves : list (list tchunk);
  g_impl : outcome gobs }.

Definition gi_of (g : gcase) : gen_input :=
  {| gi_tps := pairs_of (g_tps g); gi_assign := pairs_of (g_assign g);
     gi_tname := s2l (g_tname g); gi_tns := s2l (g_tns g); gi_kind := s2l (g_kind g); gi_apiv := s2l (g_apiv g);
     gi_annots := pairs_of (g_annots g); gi_labels := pairs_of (g_labels g) |}.

Definition leaves_of (g : gcase) : list (list achunk) := map chunks_of (g_leaves g).

Definition strs_eqb : list str -> list str -> bool := list_eqb a_eqb.

Definition same_run (m : outcome run_spec) (i : outcome gobs) : bool :=
  match m, i with
  | Ok rs, Ok o => strs_eqb (rs_leaves rs) (map s2l (go_leaves o)) && a_eqb (rs_name rs) (s2l (go_name o))
                   && a_eqb (rs_ns rs) (s2l (go_ns o)) && go_skeleton_same o
  | Err a, Err b => Nat.eqb a b
  | _, _ => false
  end.

(* the implementation must agree with the model run in two different map orders *)
Definition g_agrees (g : gcase) : bool :=
  let run reorder := get_run_spec reorder (source_of (g_source g)) (gi_of g) (map a_render (leaves_of g)) in
  same_run (run (fun e => e)) (g_impl g) && same_run (run (@rev _)) (g_impl g).

(* ---- monitor *)

Definition source_available (s : source) : bool := is_ok (get_template_check s).

Fixpoint nodupb (l : list str) : bool :=
  match l with [] => true | a :: r => negb (existsb (a_eqb a) r) && nodupb r end.

(* placeholder name |-> what its reference denotes; a later declaration of the same name wins *)
Definition spec_env (gi : gen_input) : amap :=
  fold_left (fun m p => match meaning gi (snd p) with Ok v => a_set (fst p) v m | _ => m end) (gi_tps gi) [].

(* Some true: the call must fail; Some false: it must succeed; None: not judged (duplicate assignment names or
   duplicate non-meta references, where "consumed" is ambiguous) *)
Definition must_fail (s : source) (gi : gen_input) : option bool :=
  if negb (source_available s) then Some true
  else if negb (forallb (fun p => is_ok (meaning gi (snd p))) (gi_tps gi)) then Some true
  else
    let names := map fst (gi_assign gi) in
    let refs := plain_refs (gi_tps gi) in
    if nodupb names && nodupb refs
    then Some (negb (forallb (fun a => existsb (a_eqb a) refs) names))
    else None.

Definition leaf_ok (e : amap) (cs : list achunk) (out : str) : bool :=
  a_eqb out (a_render_subst e cs)                                   (* every occurrence replaced by the value, rest untouched *)
  && (negb (a_declaredb cs e) || negb (a_occursb c_open out)).     (* nothing left over *)

Fixpoint leaves_ok (e : amap) (tpl : list (list achunk)) (out : list str) : bool :=
  match tpl, out with
  | [], [] => true
  | cs :: tpl', o :: out' => leaf_ok e cs o && leaves_ok e tpl' out'
  | _, _ => false
  end.

Definition g_monitor (s : source) (gi : gen_input) (tpl : list (list achunk)) (i : outcome gobs) : bool :=
  match i with
  | Crash _ => false
  | Err _ => match must_fail s gi with Some false => false | _ => true end
  | Ok o =>
      match must_fail s gi with
      | Some true => false
      | _ => leaves_ok (spec_env gi) tpl (map s2l (go_leaves o))
             && a_eqb (s2l (go_name o)) (gi_tname gi) && a_eqb (s2l (go_ns o)) (gi_tns gi) && go_skeleton_same o
      end
  end.

Definition g_holds (g : gcase) : bool := g_monitor (source_of (g_source g)) (gi_of g) (leaves_of g) (g_impl g).

(* ------------------------------------------------------------------ getTrialInstance cases *)

Record tcase := TCase {
  tc_exp : experiment;
  tc_asg : assignment;
  tc_gen : outcome nat;      (* outcome of the real generator called directly by the harness with (a.name, e.namespace, a.params):
                                Ok 1, Err code or Crash *)
  tc_impl : outcome trial }. (* t_runspec = 1 iff spec.runSpec is deep-equal to that directly generated object *)

Definition nmap_eqb (a b : nmap) : bool :=
  Nat.eqb (length a) (length b) &&
  forallb (fun kv => match nlookup (fst kv) b with Some v => Nat.eqb v (snd kv) | None => false end) a.

Definition pair_eqb (a b : nat * nat) : bool := Nat.eqb (fst a) (fst b) && Nat.eqb (snd a) (snd b).
Definition owner_eqb (a b : owner_ref) : bool :=
  Nat.eqb (o_apiv a) (o_apiv b) && Nat.eqb (o_kind a) (o_kind b) && Nat.eqb (o_name a) (o_name b) &&
  Nat.eqb (o_uid a) (o_uid b) && Bool.eqb (o_controller a) (o_controller b) && Bool.eqb (o_block a) (o_block b).

Definition trial_eqb (a b : trial) : bool :=
  Nat.eqb (t_name a) (t_name b) && Nat.eqb (t_ns a) (t_ns b) && nmap_eqb (t_labels a) (t_labels b) &&
  list_eqb owner_eqb (t_owners a) (t_owners b) && option_eqb Nat.eqb (t_objective a) (t_objective b) &&
  list_eqb pair_eqb (t_params a) (t_params b) && list_eqb Nat.eqb (t_rules a) (t_rules b) &&
  Nat.eqb (t_runspec a) (t_runspec b) && Bool.eqb (t_retain a) (t_retain b) &&
  option_eqb Nat.eqb (t_collector a) (t_collector b) && option_eqb nmap_eqb (t_ppl a) (t_ppl b) &&
  Nat.eqb (t_pcn a) (t_pcn b) && Nat.eqb (t_succ a) (t_succ b) && Nat.eqb (t_fail a) (t_fail b) &&
  Bool.eqb (t_status_empty a) (t_status_empty b).

Definition t_agrees (c : tcase) : bool :=
  match get_trial_instance (fun _ _ _ => tc_gen c) (tc_exp c) (tc_asg c), tc_impl c with
  | Ok a, Ok b => trial_eqb a b
  | Err a, Err b => Nat.eqb a b
  | Crash _, Crash _ => true
  | _, _ => false
  end.

(* ---- monitor: the property text, field by field, on the implementation's trial *)
Definition label_expected (e : experiment) (a : assignment) (k : nat) : option nat :=
  match match a_labels a with Some al => nlookup k al | None => None end with
  | Some v => Some v
  | None => if Nat.eqb k label_experiment then Some (e_name e) else nlookup k (e_labels e)
  end.

Definition label_keys (e : experiment) (a : assignment) : list nat :=
  label_experiment :: map fst (e_labels e) ++ match a_labels a with Some al => map fst al | None => [] end.

Definition t_monitor (e : experiment) (a : assignment) (g : outcome nat) (i : outcome trial) : bool :=
  match e_tt e with
  | None => true                                  (* no trial template: outside the property (rejected by the webhook) *)
  | Some tpl =>
      match g, i with
      | Ok rs, Ok t =>
          Nat.eqb (t_name t) (a_name a) && Nat.eqb (t_ns t) (e_ns e)
          && forallb (fun k => option_eqb Nat.eqb (nlookup k (t_labels t)) (label_expected e a k)) (label_keys e a)
          && forallb (fun kv => existsb (Nat.eqb (fst kv)) (label_keys e a)) (t_labels t)
          && list_eqb owner_eqb (t_owners t)
               [ {| o_apiv := apiv_experiment; o_kind := kind_experiment; o_name := e_name e; o_uid := e_uid e;
                    o_controller := true; o_block := true |} ]
          && option_eqb Nat.eqb (t_objective t) (e_objective e)
          && list_eqb pair_eqb (t_params t) (a_params a)
          && list_eqb Nat.eqb (t_rules t) (if e_es e then a_rules a else [])
          && Nat.eqb (t_runspec t) rs
          && Bool.eqb (t_retain t) (tt_retain tpl)
          && option_eqb Nat.eqb (t_collector t) (e_collector e)
          && t_status_empty t
      | Ok _, _ => false
      | _, Ok _ => false                           (* the generator fails: no trial may be built *)
      | _, _ => true
      end
  end.

(* ------------------------------------------------------------------ cases *)

Inductive case := CG (g : gcase) | CT (t : tcase).

Definition agrees (c : case) : bool := match c with CG g => g_agrees g | CT t => t_agrees t end.
Definition holds (c : case) : bool :=
  match c with
  | CG g => g_holds g
  | CT t => t_monitor (tc_exp t) (tc_asg t) (tc_gen t) (tc_impl t)
  end.

Definition mismatches := failing agrees.
Definition violations := failing holds.
