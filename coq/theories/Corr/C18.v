(* C18: comparison functions evaluated on generated case files.
   [mismatches] : model vs implementation (validation verdict, every reply recomputed from the study's internal draws,
                  error class of every request, the study's trials after the last successful request)
   [violations] : the property monitor on the IMPLEMENTATION's replies only *)
From KV Require Export Base.Prelude Model.Goptuna.
From Coq Require Export PrimFloat.
From Coq Require Import Floats.
Close Scope float_scope.
Open Scope Z_scope.

(* Case files write every binary64 value as a primitive float literal (hexadecimal, exact); [F] gives its bit pattern and
   [D] the draw record (exact dyadic rational + bits) the model works with. *)
Definition F (f : float) : Z := bits_of_f64 f.

Definition D (f : float) : draw :=
  match Prim2SF f with
  | S754_finite s m e =>
      let z := if s then Zneg m else Zpos m in
      if (0 <=? e)%Z then Draw (z * 2 ^ e)%Z 0 (F f) else Draw z (- e)%Z (F f)
  | S754_zero _ => Draw 0 0 (F f)
  | _ => Draw 0 (-1) (F f)            (* NaN / infinity: never a legal draw *)
  end.

(* one assignment of a reply: the text, strconv.ParseInt / ParseFloat(bits) of the text, and — for double parameters — the
   binary64 comparisons v >= min, v <= max, "on the step grid within 1e-9 relative" evaluated in Go *)
Record rassign := RA { ra_name : nat; ra_str : string; ra_int : option Z; ra_flt : option Z; ra_ge : bool; ra_le : bool; ra_grid : bool }.

(* a trial of a request: [KRef] = the trial named [name] carries exactly the assignments of the [name]-th assignment list the
   service has returned so far (texts and their strconv readings are copied from that reply); [KFull] = spelled out (altered trials) *)
Inductive ktin :=
| KRef (name cond : nat) (ts_ok : bool) (metrics : list (nat * option Z))
| KFull (k : ktrial).

Definition ka_of (x : rassign) : kassign := KA (ra_name x) (ra_str x) (ra_int x) (ra_flt x).

Definition resolve (sugg : list (list rassign)) (k : ktin) : ktrial :=
  match k with
  | KFull k => k
  | KRef n c t m => KT n c t m (map ka_of (nth n sugg []))
  end.

Record round := Round {
  r_trials : list ktin;                         (* trials of the request; k_name = global index of the suggestion it was created from *)
  r_n : nat;                                    (* current_request_number *)
  r_draws : list (list (nat * draw));           (* InternalParams of the goptuna trials created by this request (verif accessor) *)
  r_impl : outcome (list (list rassign)) }.     (* reply, or error class: 2 conversion, 3 "Same parameter is not found", 4 sampling *)

Inductive case :=
| Svc (alg : string) (settings : list setting) (ps : list pspec)
      (v_impl : outcome unit)                   (* ValidateAlgorithmSettings: Ok / Err 1 InvalidArgument / Err 2 Internal *)
      (driven : bool)                           (* accepted and inside the property's domain: rounds follow *)
      (rounds : list round)
      (final : list (params * nat * Z))         (* the study after the last successful request: Params, State, Value bits *)
| ArithD (lo q x impl : Z)                      (* DiscreteUniformDistribution{Low,Q}.ToExternalRepr(x), bits *)
| ArithI (lo step : Z) (stepped : bool) (d : draw) (impl : Z).   (* (Step)IntUniformDistribution.ToExternalRepr *)

(* ------------------------------------------------------------------ correspondence *)

Definition code {A} (o : outcome A) : Z :=
  match o with Ok _ => 0 | Err e => Z.of_nat (S e) | Crash _ => -1 end.

Definition rv_matches (v : rv) (x : rassign) : bool :=
  match v with
  | RInt z => option_eqb Z.eqb (ra_int x) (Some z)
  | RFlt b => match ra_flt x with Some b' => nz b =? nz b' | None => false end
  | RStr s => String.eqb (ra_str x) s
  end.

Definition assign_agrees (a : list (nat * rv)) (ia : list rassign) : bool :=
  Nat.eqb (length a) (length ia) &&
  forallb (fun e => match filter (fun x => Nat.eqb (ra_name x) (fst e)) ia with [x] => rv_matches (snd e) x | _ => false end) a.

Fixpoint reply_agrees (rep : reply) (irep : list (list rassign)) : bool :=
  match rep, irep with
  | [], [] => true
  | a :: r, ia :: ir => assign_agrees a ia && reply_agrees r ir
  | _, _ => false
  end.

Definition gstate_of_code (c : nat) : option gstate :=
  match c with 0%nat => Some GRunning | 1%nat => Some GComplete | 2%nat => Some GPruned | 3%nat => Some GFail | _ => None end.

Definition gt_of (x : params * nat * Z) : option gtrial :=
  let '(p, c, v) := x in option_map (fun gs => GT p gs v) (gstate_of_code c).

Definition gt_eqb (a b : gtrial) : bool :=
  params_eqb (g_params a) (g_params b) && gstate_eqb (g_state a) (g_state b) &&
  (if gstate_eqb (g_state a) GComplete then nz (g_value a) =? nz (g_value b) else true).

Fixpoint all_some {A} (l : list (option A)) : option (list A) :=
  match l with
  | [] => Some []
  | None :: _ => None
  | Some a :: r => option_map (cons a) (all_some r)
  end.

Definition count_gt (x : gtrial) (l : list gtrial) : nat := length (filter (gt_eqb x) l).

(* the trials of the study compared as multisets (which of two trials with equal parameters gets mapped depends on Go's map order) *)
Definition study_agrees (gs : list gtrial) (fin : list (params * nat * Z)) : bool :=
  match all_some (map gt_of fin) with
  | None => false
  | Some fs => Nat.eqb (length gs) (length fs) && forallb (fun x => Nat.eqb (count_gt x gs) (count_gt x fs)) gs
  end.

(* runs the model over the rounds; returns (all rounds agree, state after the last successful round) *)
Fixpoint run_agrees (sp : space) (sugg : list (list rassign)) (s : st) (rs : list round) : bool * st :=
  match rs with
  | [] => (true, s)
  | r :: rest =>
      match get_suggestions sp 0%nat s (map (resolve sugg) (r_trials r)) (r_n r) (r_draws r), r_impl r with
      | Ok (s', rep), Ok irep => if reply_agrees rep irep then run_agrees sp (sugg ++ irep) s' rest else (false, s)
      | Err e, Err e' => (Nat.eqb e e' && match rest with [] => true | _ => false end, s)
      | _, _ => (false, s)
      end
  end.

Definition agrees (c : case) : bool :=
  match c with
  | ArithD lo q x impl => nz (ext_dstep_bits lo q x) =? nz impl
  | ArithI lo step stepped d impl => (if stepped then ext_stepint lo step d else ext_int d) =? impl
  | Svc alg settings ps v_impl driven rounds final =>
      (code (validate alg settings ps) =? code v_impl) &&
      (if driven then
         match to_search_space ps with
         | Ok sp => let '(ok, s) := run_agrees sp [] init rounds in ok && study_agrees (gts s) final
         | _ => false
         end
       else true)
  end.

Definition mismatches := failing agrees.

(* ------------------------------------------------------------------ the property monitor (implementation outputs only) *)

(* a value inside the parameter's feasible space *)
Definition feasible (p : pspec) (x : rassign) : bool :=
  match p_type p with
  | PInt =>
      match ra_int x, p_min_i p, p_max_i p with
      | Some v, Some lo, Some hi =>
          (lo <=? v) && (v <=? hi) &&
          (if p_step_empty p then true else match p_step_i p with Some stp => (v - lo) mod stp =? 0 | None => false end)
      | _, _, _ => false
      end
  | PDouble => ra_ge x && ra_le x && (p_step_empty p || ra_grid x)
  | PDiscrete | PCategorical => existsb (String.eqb (ra_str x)) (p_list p)
  | PUnknown => false
  end.

(* every parameter exactly once, feasibly *)
Definition assign_ok (ps : list pspec) (ia : list rassign) : bool :=
  Nat.eqb (length ia) (length ps) &&
  forallb (fun p => match filter (fun x => Nat.eqb (ra_name x) (p_name p)) ia with [x] => feasible p x | _ => false end) ps.

Definition finite_bits (b : Z) : bool := (b / 2^52) mod 2^11 <? 2047.

(* the objective of a SUCCEEDED trial is present and finite *)
Definition objective_ok (k : ktrial) : bool :=
  if Nat.eqb (k_cond k) 2 then
    match find (fun m => Nat.eqb (fst m) 0%nat) (rev (k_metrics k)) with
    | Some (_, Some b) => finite_bits b
    | _ => false
    end
  else true.

(* the trial carries exactly the assignments of the earlier suggestion it names *)
Definition faithful (sugg : list (list rassign)) (k : ktrial) : bool :=
  k_ts_ok k && (k_cond k <=? 7)%nat && objective_ok k &&
  match nth_error sugg (k_name k) with
  | Some ras =>
      Nat.eqb (length (k_assigns k)) (length ras) && negb (has_dup (map a_name (k_assigns k))) &&
      forallb (fun a => existsb (fun x => Nat.eqb (ra_name x) (a_name a) && String.eqb (ra_str x) (a_str a)) ras) (k_assigns k)
  | None => false
  end.

(* [sugg]: all assignments returned so far; [clean]: every request so far fed back only the service's own suggestions,
   each under one name, in some condition, SUCCEEDED ones with a finite objective *)
Fixpoint rounds_ok (ps : list pspec) (sugg : list (list rassign)) (clean : bool) (rs : list round) : bool :=
  match rs with
  | [] => true
  | r :: rest =>
      let kts := map (resolve sugg) (r_trials r) in
      let clean' := clean && forallb (faithful sugg) kts && negb (has_dup (map k_name kts)) in
      match r_impl r with
      | Ok irep =>
          Nat.eqb (length irep) (r_n r) && forallb (assign_ok ps) irep && rounds_ok ps (sugg ++ irep) clean' rest
      | _ => negb clean'            (* "never makes a later request fail" *)
      end
  end.

Definition holds (c : case) : bool :=
  match c with
  | Svc _ _ ps _ driven rounds _ => if driven then rounds_ok ps [] true rounds else true
  | _ => true
  end.

Definition violations := failing holds.
