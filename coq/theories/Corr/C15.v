(* C15: comparison functions evaluated on generated case files.  R := string (digest of the flattened spec minus budget fields). *)
From KV Require Export Base.Prelude Model.Validator Model.UpdateRule.
From KV Require Import Corr.C14.
Open Scope string_scope.
Open Scope list_scope.
Open Scope Z_scope.

Record case := Case {
  c_env : env;
  c_new : experiment;             (* projection of the updated object as validated (after SetDefault) *)
  c_rest : string;                (* digest of its spec without the three budget fields *)
  c_old : stored string;          (* stored object: budget, digest, status.trials, conditions, resumePolicy *)
  c_old_admitted : bool;          (* ValidateExperiment(old, nil) = no error, same cluster *)
  c_impl : outcome (list err) }.  (* ValidateExperiment(new, old) *)

Definition agrees (c : case) : bool :=
  C14.same_result (validate_update string_dec (c_env c) (c_new c) (c_rest c) (c_old c)) (c_impl c).
Definition mismatches := failing agrees.

(* ------------------------------------------------------------------ the property monitor (implementation output only) *)
(* "An update is admitted only if the spec differs from the stored one in at most the three budget fields, the new maxTrialCount
    exceeds the number of trials already created, and - if the Experiment is completed - it is restartable.  Updates that leave the
    spec untouched are always admitted for a previously admitted Experiment." *)
Definition monitor (nb : budget) (rest : string) (o : stored string) (old_admitted : bool) (res : outcome (list err)) : bool :=
  let same_rest := String.eqb rest (o_rest o) in
  let same_budget := budget_eqb nb (stored_budget o) in
  match res with
  | Ok [] =>
      same_rest &&
      (same_budget ||
       (match b_max nb with Some m => o_trials o <? m | None => true end &&
        (negb (is_completed (o_conds o)) || restartable o)))
  | Ok (_ :: _) => negb (same_rest && same_budget && old_admitted)
  | _ => false
  end.

Definition holds (c : case) : bool := monitor (budget_of (c_new c)) (c_rest c) (c_old c) (c_old_admitted c) (c_impl c).
Definition violations := failing holds.
