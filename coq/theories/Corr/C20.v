(* C20: comparison functions evaluated on generated case files.
   A case is one HTTP request to one route of the UI backend together with what the implementation did:
   the recorded effect trace.  [mismatches]: the trace is one of the traces of the translated skeleton of that
   route (Gen/Routes.v) under the same request, RBAC oracle and API answers — this validates the translator.
   [violations]: the property monitor [safeb] on the IMPLEMENTATION's trace, independent of the skeleton. *)
From KV Require Export Base.Prelude Model.UiAuth.
From KV Require Import Gen.Routes.
Open Scope string_scope.
Open Scope list_scope.

(* RReadOnly m: a read-only member of namespace m (may get / list / watch there, nothing else) *)
Inductive rbacspec := RDeny | RAllowNs (n : string) | RAllowAll | RReadOnly (n : string).

Definition read_verb (v : string) : bool := String.eqb v "get" || String.eqb v "list" || String.eqb v "watch".

Definition rbac_of (s : rbacspec) : rbac :=
  fun _ v _ n => match s with
                 | RDeny => false
                 | RAllowNs m => String.eqb m n
                 | RAllowAll => true
                 | RReadOnly m => String.eqb m n && read_verb v
                 end.

Record case := Case {
  c_route : string;
  c_req : req;
  c_rbac : rbacspec;
  c_apis : list apires;       (* answers of the API server / DB manager, in call order (reviews excluded) *)
  c_impl : trace }.           (* recorded on the implementation *)

Definition op_eqb (a b : op) : bool :=
  match a, b with OGet, OGet | OList, OList | OCreate, OCreate | OUpdate, OUpdate | ODelete, ODelete => true | _, _ => false end.

Definition kind_eqb (a b : kind) : bool :=
  match a, b with
  | KExperiment, KExperiment | KTrial, KTrial | KSuggestion, KSuggestion | KConfigMap, KConfigMap
  | KNamespace, KNamespace | KPod, KPod | KPodLog, KPodLog | KObsLog, KObsLog => true
  | KOther x, KOther y => String.eqb x y
  | _, _ => false
  end.

Definition event_eqb (a b : event) : bool :=
  match a, b with
  | EAuth u v r n x, EAuth u' v' r' n' x' =>
      String.eqb u u' && String.eqb v v' && String.eqb r r' && String.eqb n n' && Bool.eqb x x'
  | EAcc o k n, EAcc o' k' n' => op_eqb o o' && kind_eqb k k' && String.eqb n n'
  | _, _ => false
  end.

(* events and status agree exactly; the body namespaces observed on the implementation are among those the
   skeleton lets flow into the response (the translator's data flow is a may-analysis) *)
Definition trace_match (model impl : trace) : bool :=
  list_eqb event_eqb (t_evs model) (t_evs impl) && Nat.eqb (t_status model) (t_status impl) &&
  forallb (fun n => smem n (t_body model)) (t_body impl).

(* data-dependent decisions are not recorded: all choice vectors over {0,1,2} of length <= 4 are tried *)
Fixpoint vectors (n : nat) : list (list nat) :=
  match n with
  | O => [[]]
  | S m => [] :: flat_map (fun v => [0 :: v; 1 :: v; 2 :: v]) (vectors m)
  end.
Definition candidates : list (list nat) := Eval vm_compute in vectors 4.

Fixpoint anyb {A} (f : A -> bool) (l : list A) : bool :=   (* lazy under vm_compute *)
  match l with [] => false | a :: r => if f a then true else anyb f r end.

Definition agrees (c : case) : bool :=
  match lookup_route (c_route c) routes with
  | None => false
  | Some h => anyb (fun ch => trace_match (run h (c_req c) (rbac_of (c_rbac c)) (c_apis c) ch) (c_impl c)) candidates
  end.
Definition mismatches := failing agrees.

(* the oracle's answers recorded in the trace are those of the case's RBAC specification (harness sanity) *)
Definition oracle_consistent (s : rbacspec) (t : trace) : bool :=
  forallb (fun e => match e with EAuth u v r n b => Bool.eqb b (rbac_of s u v r n) | _ => true end) (t_evs t).

Definition holds (c : case) : bool := safeb (c_req c) (c_impl c) && oracle_consistent (c_rbac c) (c_impl c).
Definition violations := failing holds.
