(* C13: comparison functions evaluated on generated case files.
   [mismatches] : model vs implementation (correspondence, on D_ok only)
   [violations] : the property monitor evaluated on the IMPLEMENTATION's output.
   The monitor does not use the algorithmic model (pre-filter, loops, error plumbing, parseTimestamp); it uses the
   comprehension-style specification of Model/LogParse.v and, for numeric JSON timestamps, the VALUE of the decimal
   numeral compared with the instant that Go's time.Parse reads back from the reported text. *)
From KV Require Export Base.Prelude Base.Bytes Model.LogParse.
Open Scope Z_scope.

(* One reported MetricLog of the implementation: the timestamp text, the instant (ns) that
   time.Parse(RFC3339Nano, text) gives for it (None if it does not parse), metric name, value. *)
Record irec := IRec { i_text : str; i_inst : option Z; i_name : str; i_value : str }.

Definition iresult := outcome (list irec).

Fixpoint forall2b {A C} (p : A -> C -> bool) (l1 : list A) (l2 : list C) : bool :=
  match l1, l2 with
  | [], [] => true
  | a :: r1, b :: r2 => p a b && forall2b p r1 r2
  | _, _ => false
  end.

(* ------------------------------------------------------------------ decimal numerals (FormatFloat 'f' output) *)

(* text before / after the first '.' *)
Fixpoint split_dot (s : str) : str * option str :=
  match s with
  | [] => ([], None)
  | c :: r => if Ascii.eqb c dot then ([], Some r)
              else let '(a, b) := split_dot r in (c :: a, b)
  end.

(* a numeral  [-]int[.frac]  denotes  num / 10^scale  seconds; [ipart] is the signed integer part *)
Record numeral := Numeral { num : Z; scale : nat; ipart : Z }.

Definition read_numeral (repr : str) : option numeral :=
  let '(neg, body) := match repr with
                      | c :: r => if byte_is 45 c then (true, r) else (false, repr)
                      | [] => (false, repr)
                      end in
  let '(ip, fp) := split_dot body in
  match ip, parse_digits 0 ip with
  | _ :: _, Some i =>
      match fp with
      | None => Some (Numeral (if neg then - i else i) 0 (if neg then - i else i))
      | Some f =>
          match f, parse_digits 0 f with
          | _ :: _, Some fr =>
              let n := i * 10 ^ Z.of_nat (length f) + fr in
              Some (Numeral (if neg then - n else n) (length f) (if neg then - i else i))
          | _, _ => None
          end
      end
  | _, _ => None
  end.

(* instant [z] (ns) is the numeral's value, up to the resolution of one nanosecond *)
Definition same_instant (n : numeral) (z : Z) : bool :=
  Z.abs (z * 10 ^ Z.of_nat (scale n) - num n * 10 ^ 9) <? 10 ^ Z.of_nat (scale n).

(* order of the values is preserved by the instants *)
Definition order_pair (p q : numeral * Z) : bool :=
  if num (fst p) * 10 ^ Z.of_nat (scale (fst q)) <=? num (fst q) * 10 ^ Z.of_nat (scale (fst p))
  then snd p <=? snd q else true.

Definition order_ok (l : list (numeral * Z)) : bool := forallb (fun p => forallb (order_pair p) l) l.

Section Monitor.
  Variable filt : Type.
  Variable default_filter : filt.
  Variable compiles : filt -> bool.
  Variable matches : filt -> str -> list (list str).
  Variable rfc3339 : str -> bool.
  Variable decode : str -> jline.

  (* ---------------------------------------------------------------- TEXT *)
  Definition text_rec_ok (e : mlog) (r : irec) : bool :=
    str_eqb (render (ts e)) (i_text r) && str_eqb (mname e) (i_name r) && str_eqb (mvalue e) (i_value r).

  Definition monitor_text (ms : list str) (fs : list filt) (content : str) (r : iresult) : bool :=
    match ms with
    | [] => true                                         (* no objective metric: outside the property *)
    | _ =>
        if forallb compiles (effective filt default_filter fs) then
          match r with
          | Ok recs => forall2b text_rec_ok (spec_text filt default_filter matches rfc3339 ms fs (split_lines content)) recs
          | _ => false
          end
        else true                                        (* a filter that is not a regular expression: outside *)
    end.

  (* ---------------------------------------------------------------- JSON *)
  Inductive ets := EText (s : str) | ENum (repr : str).
  Record erec := ERec { e_ts : ets; e_name : str; e_value : str }.

  Definition exp_ts (kvs : list (str * jval)) : ets :=
    match jlookup timestamp_key kvs with
    | Some (JString s) => if nonempty s && rfc3339 s then EText s else EText zero_time
    | Some (JNumber repr) => ENum repr
    | _ => EText zero_time
    end.

  (* every tracked name once (a name listed twice is still one tracked name): [dedup] of the model file *)
  Definition exp_line (ms : list str) (l : str) : list erec :=
    match decode l with
    | JObj kvs => flat_map (fun m => match jlookup m kvs with
                                      | Some (JString v) => [ERec (exp_ts kvs) m v]
                                      | _ => []
                                      end) (dedup [] ms)
    | JBad => []
    end.

  Definition exp_fallback (ms : list str) (found : list erec) : list erec :=
    match ms with
    | [] => found
    | obj :: _ => if existsb (fun e => str_eqb (e_name e) obj) found then found
                  else [ERec (EText zero_time) obj unavailable]
    end.

  Definition ts_ok (e : ets) (r : irec) : bool :=
    match e with
    | EText s => str_eqb s (i_text r)
    | ENum repr =>
        match read_numeral repr with
        | Some n =>
            if in_int64 (ipart n) then
              match i_inst r with Some z => same_instant n z | None => false end
            else str_eqb zero_time (i_text r)          (* no such time.Time: reported without timestamp *)
        | None => false
        end
    end.

  Definition json_rec_ok (e : erec) (r : irec) : bool :=
    ts_ok (e_ts e) r && str_eqb (e_name e) (i_name r) && str_eqb (e_value e) (i_value r).

  Fixpoint numeric_pairs (es : list erec) (rs : list irec) : list (numeral * Z) :=
    match es, rs with
    | e :: es', r :: rs' =>
        match e_ts e, i_inst r with
        | ENum repr, Some z =>
            match read_numeral repr with
            | Some n => if in_int64 (ipart n) then (n, z) :: numeric_pairs es' rs' else numeric_pairs es' rs'
            | None => numeric_pairs es' rs'
            end
        | _, _ => numeric_pairs es' rs'
        end
    | _, _ => []
    end.

  Definition monitor_json (ms : list str) (content : str) (r : iresult) : bool :=
    match ms with
    | [] => true
    | _ =>
        let lines := split_lines content in
        if existsb (malformed decode) lines then negb (is_crash r)
        else match r with
             | Ok recs =>
                 let es := exp_fallback ms (flat_map (exp_line ms) (List.filter nonempty lines)) in
                 forall2b json_rec_ok es recs && order_ok (numeric_pairs es recs)
             | _ => false
             end
    end.

  Definition monitor (fmt : format) (ms : list str) (fs : list filt) (content : str) (r : iresult) : bool :=
    match fmt with
    | TEXT => monitor_text ms fs content r
    | JSON => monitor_json ms content r
    | OtherFormat => negb (is_crash r)
    end.

  (* ---------------------------------------------------------------- model vs implementation *)
  Definition rec_same (m : mlog) (r : irec) : bool :=
    text_rec_ok m r &&
    match ts m with
    | TsUnix z => match i_inst r with Some z' => z =? z' | None => false end   (* format_instant z denotes z *)
    | TsText _ => true
    end.

  Definition same_result (rm : outcome (list mlog)) (ri : iresult) : bool :=
    match rm, ri with
    | Ok a, Ok b => forall2b rec_same a b
    | Err x, Err y => Nat.eqb x y
    | Crash x, Crash y => Nat.eqb x y
    | _, _ => false
    end.

  (* the model's own output in the shape the monitor reads *)
  Definition attach (m : mlog) : irec :=
    IRec (render (ts m)) (match ts m with TsUnix z => Some z | TsText _ => None end) (mname m) (mvalue m).

  Definition attach_result (r : outcome (list mlog)) : iresult :=
    match r with Ok l => Ok (map attach l) | Err e => Err e | Crash s => Crash s end.
End Monitor.

(* ------------------------------------------------------------------ cases as printed by harness/cmd/c13
   Text is printed once: the file content.  Everything the libraries return about a line refers to the line by its
   index in strings.Split(content, "\n") and to pieces of it by byte offsets, and is cut out of the line here.
   Strings are printed in an ASCII escape form (backslash + two hex digits for a non-printable byte or a backslash),
   because Coq parses plain string literals an order of magnitude faster than byte lists. *)

Definition hexval (c : ascii) : nat :=
  let n := nat_of_ascii c in
  if (48 <=? n)%nat && (n <=? 57)%nat then n - 48 else if (97 <=? n)%nat && (n <=? 102)%nat then n - 87 else 0.

Fixpoint unesc (s : str) : str :=
  match s with
  | [] => []
  | c :: r =>
      if byte_is 92 c then
        match r with
        | h1 :: h2 :: r' => ascii_of_nat (16 * hexval h1 + hexval h2) :: unesc r'
        | _ => []
        end
      else c :: unesc r
  end.

Definition U (s : string) : str := unesc (list_ascii_of_string s).

Inductive jv :=
| JS (s : string)          (* a string *)
| JT (s : string)          (* a string on which time.Parse(RFC3339Nano, _) succeeds *)
| JN (repr : string)       (* a float64, as FormatFloat(f, 'f', -1, 64) *)
| JX.

(* long file contents are printed as a concatenation of short literals and run-length segments *)
Definition rep_s (n : N) (p : string) : string := N.iter n (String.append p) EmptyString.
Definition cat (l : list string) : string := String.concat EmptyString l.

Record case := Case {
  c_format : nat;                                          (* 0 TEXT, 1 JSON, other: neither *)
  c_metrics : list string;
  c_filters : list nat;                                    (* ids >= 1 of the given filters; id 0 = the default filter *)
  c_nocompile : list nat;                                  (* ids for which regexp.Compile fails *)
  c_content : string;                                      (* the file *)
  c_matches : list (nat * Z * list (list (Z * Z)));        (* (filter id, line index) |-> FindAllStringSubmatchIndex(line, -1):
                                                              per match the [start, end) offsets of the whole match and of the
                                                              groups, cut after the first three entries (the code reads
                                                              len >= 3, [1] and [2] only); start = -1: group did not take part *)
  c_tsfield : list (Z * Z);                                (* (line index, n): time.Parse accepts the first n bytes of the line *)
  c_json : list (Z * option (list (string * jv)));         (* line index |-> decoded object restricted to the keys that are
                                                              tracked names or "timestamp"; None = Unmarshal error *)
  c_impl : outcome (list (string * option Z * string * string))   (* instants are supplied for JSON cases only *)
}.

Definition conv_jv (v : jv) : jval :=
  match v with JS s => JString (U s) | JT s => JString (U s) | JN r => JNumber (U r) | JX => JOther end.

Definition fmt_of (n : nat) : format := match n with O => TEXT | S O => JSON | _ => OtherFormat end.

Section Tables.
  Variable mt : list (nat * str * list (list str)).
  Variable tt : list str.
  Variable jt : list (str * jline).
  Variable bad : list nat.

  Definition t_compiles (f : nat) : bool := negb (existsb (Nat.eqb f) bad).
  Definition t_matches (f : nat) (l : str) : list (list str) :=
    match find (fun e => Nat.eqb (fst (fst e)) f && str_eqb (snd (fst e)) l) mt with
    | Some e => snd e
    | None => []
    end.
  Definition t_rfc3339 (s : str) : bool := mem s tt.
  Definition t_decode (l : str) : jline :=
    match find (fun e => str_eqb (fst e) l) jt with Some e => snd e | None => JBad end.

  (* assumption on the regexp engine, checked on every case: captured groups are substrings of the line *)
  Definition table_wf : bool :=
    forallb (fun e => forallb (forallb (fun g => containsb g (snd (fst e)))) (snd e)) mt.
End Tables.

Definition lines_of (c : case) : list str := split_on (ascii_of_nat 10) (U (c_content c)).
Definition line_at (ls : list str) (i : Z) : str := nth (Z.to_nat i) ls [].
Definition slice (l : str) (a b : Z) : str :=
  if a <? 0 then [] else firstn (Z.to_nat (b - a)) (skipn (Z.to_nat a) l).

Definition conv_mt (c : case) :=
  let ls := lines_of c in
  map (fun e => let l := line_at ls (snd (fst e)) in
                (fst (fst e), l, map (map (fun ab => slice l (fst ab) (snd ab))) (snd e))) (c_matches c).
Definition json_ts_strings (c : case) : list str :=
  flat_map (fun e => match snd e with
                     | Some kvs => flat_map (fun kv => match snd kv with JT s => [U s] | _ => [] end) kvs
                     | None => []
                     end) (c_json c).
Definition conv_tt (c : case) :=
  let ls := lines_of c in
  map (fun e => firstn (Z.to_nat (snd e)) (line_at ls (fst e))) (c_tsfield c) ++ json_ts_strings c.
Definition conv_jt (c : case) :=
  let ls := lines_of c in
  map (fun e => (line_at ls (fst e), match snd e with
                                      | Some kvs => JObj (map (fun kv => (U (fst kv), conv_jv (snd kv))) kvs)
                                      | None => JBad
                                      end)) (c_json c).
Definition conv_impl (c : case) : iresult :=
  match c_impl c with
  | Ok l => Ok (map (fun r => let '(t, i, n, v) := r in IRec (U t) i (U n) (U v)) l)
  | Err e => Err e
  | Crash s => Crash s
  end.

Definition model_of (c : case) : outcome (list mlog) :=
  collect nat 0%nat (t_compiles (c_nocompile c)) (t_matches (conv_mt c)) (t_rfc3339 (conv_tt c)) (t_decode (conv_jt c))
          (fmt_of (c_format c)) (map U (c_metrics c)) (c_filters c) (U (c_content c)).

Definition agrees (c : case) : bool :=
  table_wf (conv_mt c) && same_result (model_of c) (conv_impl c).

Definition holds (c : case) : bool :=
  monitor nat 0%nat (t_compiles (c_nocompile c)) (t_matches (conv_mt c)) (t_rfc3339 (conv_tt c)) (t_decode (conv_jt c))
          (fmt_of (c_format c)) (map U (c_metrics c)) (c_filters c) (U (c_content c)) (conv_impl c).

Definition mismatches := failing agrees.
Definition violations := failing holds.
