(* Case type and model-vs-implementation comparison shared by Corr/C05.v and Corr/C03.v (one Go driver,
   harness/cmd/c05, produces both case streams by calling the real util.UpdateExperimentStatus /
   util.UpdateExperimentStatusCondition). *)
From KV Require Export Base.Prelude Base.Cond Model.StatusUtil Model.StatusSpec.
Open Scope Z_scope.

Inductive call :=
| CallStatus                                   (* util.UpdateExperimentStatus(collector, experiment, trials) *)
| CallCondition (goal suggestion_done : bool). (* util.UpdateExperimentStatusCondition(collector, experiment, goal, done) *)

Record case := Case {
  c_call : call;
  c_spec : espec;
  c_prior : estatus;                (* Experiment.Status before the call *)
  c_trials : list trial;
  c_impl : outcome estatus;         (* Experiment.Status after the call (Crash = panic) *)
  c_succ_inc : nat;                 (* increments of katib_experiment_succeeded_total during the call *)
  c_fail_inc : nat;                 (* increments of katib_experiment_failed_total *)
  c_restartable : bool;             (* util.IsCompletedExperimentRestartable on the experiment after the call *)
  (* side observations (independent of the call), to tie the helpers of Model/StatusUtil.v that
     UpdateExperimentStatus does not exercise: *)
  c_exp_marks : list (nat * nat * conds);                   (* (op, reason, Conditions after MarkExperimentStatus<op> on a copy of the prior status) *)
  c_trial_marks : list (nat * nat * cstatus * nat * conds); (* (trial index, op, status, reason, Conditions after MarkTrialStatus<op> on a copy) *)
  c_trial_flags : list (bool * bool)                        (* per trial: IsCompleted, IsObservationAvailable *)
}.

(* the harness uses CompletionTime: None = nil, Some 0 = the prior stamp, Some 1 = a stamp written by the call *)
Definition case_now : nat := 1%nat.

(* ------------------------------------------------------------------ decidable equality on statuses *)

Definition mval_eqb (a b : mval) : bool :=
  Nat.eqb (mv_text a) (mv_text b) && option_eqb Z.eqb (mv_num a) (mv_num b).

Definition metric_eqb (a b : metric) : bool :=
  Nat.eqb (m_name a) (m_name b) && mval_eqb (m_min a) (m_min b) && mval_eqb (m_max a) (m_max b) &&
  mval_eqb (m_latest a) (m_latest b).

Definition pair_eqb (a b : nat * nat) : bool := Nat.eqb (fst a) (fst b) && Nat.eqb (snd a) (snd b).

Definition optimal_eqb (a b : optimal) : bool :=
  Nat.eqb (best_name a) (best_name b) && list_eqb pair_eqb (best_assignments a) (best_assignments b) &&
  list_eqb metric_eqb (best_observation a) (best_observation b).

Definition conds_eqb : conds -> conds -> bool := list_eqb cond_eqb.
Definition names_eqb : list nat -> list nat -> bool := list_eqb Nat.eqb.

Definition estatus_eqb (a b : estatus) : bool :=
  conds_eqb (e_conds a) (e_conds b) && option_eqb Nat.eqb (e_completion a) (e_completion b) &&
  optimal_eqb (e_optimal a) (e_optimal b) &&
  names_eqb (e_running_list a) (e_running_list b) && names_eqb (e_pending_list a) (e_pending_list b) &&
  names_eqb (e_failed_list a) (e_failed_list b) && names_eqb (e_succeeded_list a) (e_succeeded_list b) &&
  names_eqb (e_killed_list a) (e_killed_list b) && names_eqb (e_early_stopped_list a) (e_early_stopped_list b) &&
  names_eqb (e_metrics_unavailable_list a) (e_metrics_unavailable_list b) &&
  (e_trials a =? e_trials b) && (e_trials_succeeded a =? e_trials_succeeded b) &&
  (e_trials_failed a =? e_trials_failed b) && (e_trials_killed a =? e_trials_killed b) &&
  (e_trials_pending a =? e_trials_pending b) && (e_trials_running a =? e_trials_running b) &&
  (e_trials_early_stopped a =? e_trials_early_stopped b) &&
  (e_trials_metrics_unavailable a =? e_trials_metrics_unavailable b).

(* ------------------------------------------------------------------ the model on a case *)

Definition model_status (c : case) : estatus :=
  match c_call c with
  | CallStatus => update_experiment_status case_now (c_spec c) (c_prior c) (c_trials c)
  | CallCondition g d => update_experiment_status_condition case_now (c_spec c) (c_prior c) g d
  end.

(* the branch the model takes; None = the condition update is skipped (already completed) *)
Definition model_verdict (c : case) : option verdict :=
  match c_call c with
  | CallStatus =>
      let '(st1, g) := update_trials_summary (c_spec c) (c_prior c) (c_trials c) in
      if exp_is_completed st1 then None else Some (decide (c_spec c) st1 g false)
  | CallCondition g d => Some (decide (c_spec c) (c_prior c) g d)
  end.

(* collector.IncreaseExperimentsSucceededCount / …FailedCount are called once in the corresponding branch *)
Definition model_incs (c : case) : nat * nat :=
  match model_verdict c with
  | Some VGoal | Some VMaxTrials | Some VSuggestionEnd => (1, 0)%nat
  | Some VFailed => (0, 1)%nat
  | Some VRunning | None => (0, 0)%nat
  end.

(* op numbering of the side observations *)
Definition exp_mark_model (cs : conds) (op reason : nat) : conds :=
  match op with
  | 0%nat => mark_exp_created cs reason
  | 1%nat => mark_exp_running cs reason
  | 2%nat => mark_exp_restarting cs reason
  | 3%nat => mark_exp_succeeded cs reason
  | _ => mark_exp_failed cs reason
  end.

Definition trial_mark_model (t : trial) (op : nat) (st : cstatus) (reason : nat) : conds :=
  t_conds match op with
          | 0%nat => mark_trial_created t reason
          | 1%nat => mark_trial_running t reason
          | 2%nat => mark_trial_succeeded t st reason
          | 3%nat => mark_trial_failed t reason
          | 4%nat => mark_trial_killed t reason
          | _ => mark_trial_metrics_unavailable t reason
          end.

Definition helpers_agree (c : case) : bool :=
  forallb (fun m => let '(op, reason, res) := m in conds_eqb (exp_mark_model (e_conds (c_prior c)) op reason) res) (c_exp_marks c) &&
  forallb (fun m => let '(i, op, st, reason, res) := m in
                    match nth_error (c_trials c) i with
                    | Some t => conds_eqb (trial_mark_model t op st reason) res
                    | None => false
                    end) (c_trial_marks c) &&
  list_eqb (fun a b => Bool.eqb (fst a) (fst b) && Bool.eqb (snd a) (snd b))
           (map (fun t => (is_completed t, is_observation_available t)) (c_trials c)) (c_trial_flags c).

Definition agrees (c : case) : bool :=
  helpers_agree c &&
  match c_impl c with
  | Ok st =>
      estatus_eqb (model_status c) st &&
      Nat.eqb (fst (model_incs c)) (c_succ_inc c) && Nat.eqb (snd (model_incs c)) (c_fail_inc c) &&
      Bool.eqb (is_completed_experiment_restartable (c_spec c) (model_status c)) (c_restartable c)
  | _ => false
  end.
