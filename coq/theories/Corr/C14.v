(* C14: comparison functions evaluated on generated case files.
   [mismatches] : model vs implementation (defaulting, validation result, generator result, name syntax) on D_ok
   [violations] : the property monitor evaluated on the IMPLEMENTATION's outputs only *)
From KV Require Export Base.Prelude Base.StrFind Base.DnsName Model.Validator.
Open Scope string_scope.
Open Scope list_scope.
Open Scope Z_scope.

(* one attempt of the harness to build a trial of an admitted experiment with the real generator *)
Record run := { r_asg : list (string * string);      (* one feasible value per spec.parameters entry *)
                r_impl : outcome unit;               (* GetRunSpecWithHyperParameters: Ok / Err code (as apply_parameters; 9 = other) *)
                r_wellformed : bool }.               (* on Ok: name and namespace set, no ${trialParameters.…} left in the object *)

(* names derived from an admitted experiment, judged by k8s.io/apimachinery/pkg/util/validation *)
Record names := { n_algo : string;
                  n_algo_ok : bool;        (* the configured algorithm name is a DNS-1123 label of at most 22 bytes *)
                  n_service_ok : bool;     (* IsDNS1035Label(GetSuggestionServiceName) *)
                  n_deploy_ok : bool;      (* IsDNS1123Subdomain(GetSuggestionDeploymentName) *)
                  n_suffix : string;       (* an utilrand.String(8) *)
                  n_trial_ok : bool;       (* IsDNS1123Subdomain and IsDNS1123Label(<experiment>-<suffix>) *)
                  n_algo_in_cfg : bool }.  (* the experiment's algorithm name is, letter for letter, an algorithmName of katib-config *)

Record case := Case {
  c_env : env;
  c_exp : experiment;             (* as submitted *)
  c_dflt : bool;                  (* SetDefault was applied before validation (the webhook order) *)
  c_impl_exp : experiment;        (* projection of the Go object that was validated *)
  c_impl : outcome (list err);    (* ValidateExperiment(instance, nil); Crash = panic *)
  c_names : option names;         (* present iff the implementation admitted *)
  c_runs : list run }.            (* non empty only if the implementation admitted *)

(* ------------------------------------------------------------------ decidable equality of the projection *)
Definition experiment_eq_dec : forall a b : experiment, {a = b} + {a <> b}.
Proof.
  assert (forall a b : bool, {a = b} + {a <> b}) by apply bool_dec.
  assert (forall a b : string, {a = b} + {a <> b}) by apply string_dec.
  assert (forall a b : Z, {a = b} + {a <> b}) by apply Z.eq_dec.
  assert (forall a b : nat, {a = b} + {a <> b}) by apply Nat.eq_dec.
  repeat decide equality.
Defined.

Definition experiment_eqb (a b : experiment) : bool := if experiment_eq_dec a b then true else false.

Definition err_eqb (a b : err) : bool := Nat.eqb (fst a) (fst b) && Nat.eqb (snd a) (snd b).

Definition same_result (m i : outcome (list err)) : bool :=
  match m, i with
  | Ok a, Ok b => list_eqb err_eqb a b
  | Crash _, Crash _ => true
  | _, _ => false
  end.

Definition same_run (m : outcome (list (string * pvalue))) (i : outcome unit) : bool :=
  match m, i with
  | Ok _, Ok _ => true
  | Err a, Err b => Nat.eqb a b
  | _, _ => false
  end.

Definition validated (c : case) : experiment := if c_dflt c then set_default (c_exp c) else c_exp c.

Definition names_agree (e : experiment) (n : names) : bool :=
  Bool.eqb (dns1123_label (n_algo n) && (String.length (n_algo n) <=? 22)%nat) (n_algo_ok n) &&
  Bool.eqb (dns1035_label (suggestion_resource_name (e_name e) (n_algo n))) (n_service_ok n) &&
  Bool.eqb (dns_subdomain (suggestion_resource_name (e_name e) (n_algo n))) (n_deploy_ok n) &&
  Bool.eqb (dns_subdomain (trial_name (e_name e) (n_suffix n)) && dns1123_label (trial_name (e_name e) (n_suffix n))) (n_trial_ok n).

Definition agrees (c : case) : bool :=
  experiment_eqb (validated c) (c_impl_exp c) &&
  same_result (validate (c_env c) (validated c)) (c_impl c) &&
  match c_names c with Some n => names_agree (c_impl_exp c) n | None => true end &&
  forallb (fun r => same_run (apply_parameters (c_env c) (validated c) (r_asg r)) (r_impl r)) (c_runs c).

Definition mismatches := failing agrees.

(* ------------------------------------------------------------------ the property monitor *)
(* "Validation of a defaulted Experiment never crashes; an admitted Experiment has consistent positive budget fields, every
    dereferenced object present, legal derived names (for a legal algorithm name), and its trials can be built." *)
(* An algorithm name that is no legal label makes the derived Service/Deployment names illegal; that is the operator's doing
   only when katib-config itself spells the algorithm so.  A name that merely resembles a configured one (other case,
   say) and is admitted is the webhook's fault. *)
Definition names_ok (n : names) : bool :=
  if n_algo_ok n then n_service_ok n && n_deploy_ok n && n_trial_ok n else n_algo_in_cfg n && n_trial_ok n.

Definition run_ok (r : run) : bool := is_ok (r_impl r) && r_wellformed r.

Definition monitor (dflt : bool) (e : experiment) (res : outcome (list err)) (ns : option names) (runs : list run) : bool :=
  if negb dflt then true
  else match res with
       | Crash _ => false
       | Err _ => false
       | Ok (_ :: _) => true
       | Ok [] => budget_ok e && derefs_ok e && match ns with Some n => names_ok n | None => false end && forallb run_ok runs
       end.

Definition holds (c : case) : bool := monitor (c_dflt c) (c_impl_exp c) (c_impl c) (c_names c) (c_runs c).
Definition violations := failing holds.
