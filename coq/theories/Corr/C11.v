(* C11: comparison functions evaluated on generated case files.
   [mismatches] : model vs implementation (correspondence, on D_ok only)
   [violations] : the property monitor evaluated on the IMPLEMENTATION's output *)
From KV Require Export Base.Prelude Model.GetMetrics.
From KV Require Import Proofs.GetMetricsP.
Open Scope Z_scope.

Definition result := outcome (list (nat * (nat * nat * nat))).

Record case := Case { c_strategies : list nat; c_log : list entry; c_impl : result }.

Definition triple_eqb (a b : nat * nat * nat) : bool :=
  let '(a1, a2, a3) := a in let '(b1, b2, b3) := b in Nat.eqb a1 b1 && Nat.eqb a2 b2 && Nat.eqb a3 b3.

Definition lookup_is (m : nat) (r : list (nat * (nat * nat * nat))) (v : nat * nat * nat) : bool :=
  match lookup m r with [w] => triple_eqb w v | _ => false end.

(* results compared as finite maps (Go iterates a map) *)
Definition same_result (rm ri : result) : bool :=
  match rm, ri with
  | Ok a, Ok b => Nat.eqb (length a) (length b) && forallb (fun p => lookup_is (fst p) b (snd p)) a
  | Err _, Err _ => true
  | _, _ => false
  end.

Definition agrees (c : case) : bool := same_result (get_metrics (c_strategies c) (c_log c)) (c_impl c).
Definition mismatches := failing agrees.

(* ------------------------------------------------------------------ the property monitor *)

Definition list_min (d : Z) (l : list Z) : Z := fold_right Z.min d l.
Definition list_max (d : Z) (l : list Z) : Z := fold_right Z.max d l.

Definition zmin_of (l : list Z) : option Z := match l with [] => None | a :: r => Some (list_min a r) end.
Definition zmax_of (l : list Z) : option Z := match l with [] => None | a :: r => Some (list_max a r) end.

(* [text] is the text of an entry of [l] denoting number [z] *)
Definition reported (l : list entry) (text : nat) (z : Z) : bool :=
  existsb (fun e => Nat.eqb (vtext e) text && match vnum e with Some y => Z.eqb y z | None => false end) l.

Definition latest_entry (l : list entry) : option entry :=
  match zmax_of (map ts_of l) with
  | None => None
  | Some t => Some (last (filter (fun e => Z.eqb (ts_of e) t) l) {| ename := 0; vtext := unavailable; vnum := None; ets := None |})
  end.

Definition metric_ok (l : list entry) (v : nat * nat * nat) : bool :=
  let '(mn, mx, lt) := v in
  (match zmin_of (nums l) with
   | None => Nat.eqb mn unavailable
   | Some z => reported l mn z
   end) &&
  (match zmax_of (nums l) with
   | None => Nat.eqb mx unavailable
   | Some z => reported l mx z
   end) &&
  (match latest_entry l with
   | None => Nat.eqb lt unavailable
   | Some e => Nat.eqb lt (vtext e)
   end).

Definition has_bad_ts (strategies : list nat) (l : list entry) : bool :=
  existsb (fun e => tracked strategies e && match ets e with None => true | Some _ => false end) l.

Definition monitor (strategies : list nat) (l : list entry) (r : result) : bool :=
  if has_bad_ts strategies l then match r with Err _ => true | _ => false end
  else match r with
       | Ok out =>
           Nat.eqb (length out) (length (dedup strategies)) &&
           forallb (fun m => match lookup m out with [v] => metric_ok (of_name m l) v | _ => false end) (dedup strategies)
       | _ => false
       end.

Definition holds (c : case) : bool := monitor (c_strategies c) (c_log c) (c_impl c).
Definition violations := failing holds.
