(* C06, function-level part: GetDeployedJobStatus on generated job documents and conditions. *)
From KV Require Export Base.Prelude Model.JobStatus.

Record case := Case { k_fail : bool; k_succ : bool; k_running : bool; k_named : bool; k_impl : jverdict }.

Definition jverdict_eqb (a b : jverdict) : bool :=
  match a, b with JVFailed, JVFailed | JVSucceeded, JVSucceeded | JVRunning, JVRunning | JVNone, JVNone => true | _, _ => false end.

Definition agrees (c : case) : bool := jverdict_eqb (job_status (k_fail c) (k_succ c) (k_running c) (k_named c)) (k_impl c).
Definition mismatches := failing agrees.

(* the property: a job satisfying the failure condition is Failed whatever the success condition says; Succeeded is
   reported only if the success condition holds (and the failure condition does not) *)
Definition holds (c : case) : bool :=
  (negb (k_fail c) || jverdict_eqb (k_impl c) JVFailed) &&
  (negb (jverdict_eqb (k_impl c) JVSucceeded) || (k_succ c && negb (k_fail c))) &&
  (negb (jverdict_eqb (k_impl c) JVFailed) || k_fail c).
Definition violations := failing holds.
