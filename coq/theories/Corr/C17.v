(* C17: comparison functions evaluated on generated case files.
   [mismatches] : model (Model/Composer.v) vs the objects returned by the real composer.General, the endpoints returned by
                  util.Get*Endpoint, the targets dialled by the real suggestionclient and the objects created by the real
                  ReconcileSuggestion (correspondence)
   [violations] : the property monitor evaluated on the IMPLEMENTATION's objects only *)
From KV Require Export Base.Prelude Model.Composer.
Open Scope Z_scope.

(* what the implementation did on one input *)
Record impl := Impl {
  i_dep : outcome deployment;                       (* DesiredDeployment *)
  i_svc : outcome service;                          (* DesiredService *)
  i_vol : outcome (pvc * option pv);                (* DesiredVolume *)
  i_rbac : outcome (sacc * role * rolebinding);     (* DesiredRBAC *)
  i_alg_ep : string;                                (* util.GetAlgorithmEndpoint *)
  i_es_ep : string;                                 (* util.GetEarlyStoppingEndpoint *)
  i_dialled : list (bool * string);                 (* gRPC targets opened by the real suggestionclient during a reconcile with a
                                                       ready deployment; true = handed to the EarlyStopping client factory *)
  i_created : list objref;                          (* objects present after the first ReconcileSuggestion on an empty cluster *)
  i_rec_err : bool                                  (* that reconcile returned an error *)
}.

Record case := Case { c_K : consts; c_probe : bool; c_cfg : option katib_config; c_s : suggestion; c_impl : impl }.

(* ------------------------------------------------------------------ equality tests on projections *)
Definition seqb := String.eqb.
Definition is_empty {A} (l : list A) : bool := match l with [] => true | _ => false end.

(* [a] is included in [b] (as finite maps; keys of Go maps are unique) *)
Definition submap (a b : smap) : bool :=
  forallb (fun p => match mget (fst p) b with Some v => seqb v (snd p) | None => false end) a.
Definition smap_eqb (a b : smap) : bool := Nat.eqb (length a) (length b) && submap a b && submap b a.

Definition port_eqb (a b : port) := seqb (p_name a) (p_name b) && Z.eqb (p_num a) (p_num b).
Definition vmount_eqb (a b : vmount) := seqb (vm_name a) (vm_name b) && seqb (vm_path a) (vm_path b).
Definition grpc_eqb (a b : Z * string) := Z.eqb (fst a) (fst b) && seqb (snd a) (snd b).
Definition probe_eqb (a b : probe) :=
  option_eqb grpc_eqb (pr_grpc a) (pr_grpc b) && Z.eqb (pr_delay a) (pr_delay b) && Z.eqb (pr_period a) (pr_period b) &&
  Z.eqb (pr_failure a) (pr_failure b).
Definition container_eqb (a b : container) :=
  seqb (ct_name a) (ct_name b) && seqb (ct_image a) (ct_image b) && seqb (ct_pull a) (ct_pull b) &&
  list_eqb port_eqb (ct_ports a) (ct_ports b) && list_eqb vmount_eqb (ct_mounts a) (ct_mounts b) &&
  option_eqb probe_eqb (ct_readiness a) (ct_readiness b) && option_eqb probe_eqb (ct_liveness a) (ct_liveness b) &&
  Nat.eqb (ct_resources a) (ct_resources b) && Nat.eqb (ct_rest a) (ct_rest b).
Definition owner_eqb (a b : owner_ref) :=
  seqb (o_api a) (o_api b) && seqb (o_kind a) (o_kind b) && seqb (o_name a) (o_name b) && seqb (o_uid a) (o_uid b) &&
  Bool.eqb (o_controller a) (o_controller b) && Bool.eqb (o_block a) (o_block b).
Definition owners_eqb := list_eqb owner_eqb.
Definition volume_eqb (a b : volume) := seqb (v_name a) (v_name b) && seqb (v_claim a) (v_claim b).
Definition deployment_eqb (a b : deployment) :=
  seqb (d_name a) (d_name b) && seqb (d_ns a) (d_ns b) && smap_eqb (d_labels a) (d_labels b) &&
  smap_eqb (d_annotations a) (d_annotations b) && smap_eqb (d_selector a) (d_selector b) &&
  smap_eqb (d_tpl_labels a) (d_tpl_labels b) && smap_eqb (d_tpl_annotations a) (d_tpl_annotations b) &&
  list_eqb container_eqb (d_containers a) (d_containers b) && seqb (d_sa a) (d_sa b) &&
  list_eqb volume_eqb (d_volumes a) (d_volumes b) && owners_eqb (d_owners a) (d_owners b).
Definition target_eqb (a b : target) :=
  match a, b with TDefault, TDefault => true | TNum x, TNum y => Z.eqb x y | TName x, TName y => seqb x y | _, _ => false end.
Definition sport_eqb (a b : sport) := seqb (sp_name a) (sp_name b) && Z.eqb (sp_port a) (sp_port b) && target_eqb (sp_target a) (sp_target b).
Definition service_eqb (a b : service) :=
  seqb (sv_name a) (sv_name b) && seqb (sv_ns a) (sv_ns b) && smap_eqb (sv_selector a) (sv_selector b) &&
  list_eqb sport_eqb (sv_ports a) (sv_ports b) && seqb (sv_type a) (sv_type b) && owners_eqb (sv_owners a) (sv_owners b).
Definition pvc_eqb (a b : pvc) :=
  seqb (pvc_name a) (pvc_name b) && seqb (pvc_ns a) (pvc_ns b) && Nat.eqb (pvc_spec a) (pvc_spec b) && owners_eqb (pvc_owners a) (pvc_owners b).
Definition pv_eqb (a b : pv) :=
  seqb (pv_name a) (pv_name b) && seqb (pv_ns a) (pv_ns b) && smap_eqb (pv_labels a) (pv_labels b) && Nat.eqb (pv_spec a) (pv_spec b) &&
  owners_eqb (pv_owners a) (pv_owners b).
Definition vol_eqb (a b : pvc * option pv) := pvc_eqb (fst a) (fst b) && option_eqb pv_eqb (snd a) (snd b).
Definition strs_eqb := list_eqb seqb.
Definition rule_eqb (a b : rule) :=
  strs_eqb (r_groups a) (r_groups b) && strs_eqb (r_resources a) (r_resources b) && strs_eqb (r_verbs a) (r_verbs b).
Definition subject_eqb (a b : subject) := seqb (sj_kind a) (sj_kind b) && seqb (sj_name a) (sj_name b) && seqb (sj_ns a) (sj_ns b).
Definition rbac_eqb (x y : sacc * role * rolebinding) :=
  let '(a1, r1, b1) := x in let '(a2, r2, b2) := y in
  seqb (sa_name a1) (sa_name a2) && seqb (sa_ns a1) (sa_ns a2) && owners_eqb (sa_owners a1) (sa_owners a2) &&
  seqb (ro_name r1) (ro_name r2) && seqb (ro_ns r1) (ro_ns r2) && list_eqb rule_eqb (ro_rules r1) (ro_rules r2) &&
  owners_eqb (ro_owners r1) (ro_owners r2) &&
  seqb (rb_name b1) (rb_name b2) && seqb (rb_ns b1) (rb_ns b2) && list_eqb subject_eqb (rb_subjects b1) (rb_subjects b2) &&
  seqb (rb_ref_group b1) (rb_ref_group b2) && seqb (rb_ref_kind b1) (rb_ref_kind b2) && seqb (rb_ref_name b1) (rb_ref_name b2) &&
  owners_eqb (rb_owners b1) (rb_owners b2).

(* outcomes: same constructor; errors by class code *)
Definition outcome_eqb {A} (eqb : A -> A -> bool) (a b : outcome A) : bool :=
  match a, b with
  | Ok x, Ok y => eqb x y
  | Err x, Err y => Nat.eqb x y
  | _, _ => false
  end.

Definition objref_eqb (a b : objref) := Nat.eqb (or_kind a) (or_kind b) && seqb (or_ns a) (or_ns b) && seqb (or_name a) (or_name b).
Definition has_obj (l : list objref) (o : objref) : bool := existsb (objref_eqb o) l.
(* created objects compared as sets *)
Definition objs_eqb (a b : list objref) : bool := Nat.eqb (length a) (length b) && forallb (has_obj b) a && forallb (has_obj a) b.

Definition dial_eqb (a b : bool * string) := Bool.eqb (fst a) (fst b) && seqb (snd a) (snd b).
Definition has_dial (l : list (bool * string)) (d : bool * string) : bool := existsb (dial_eqb d) l.
(* dialled targets compared as sets (the controller dials each endpoint several times) *)
Definition dials_eqb (a b : list (bool * string)) : bool := forallb (has_dial b) a && forallb (has_dial a) b.

(* what the model says the implementation does on an input *)
Definition model_impl (K : consts) (probe : bool) (cfg : option katib_config) (s : suggestion) (observed_dials : bool) : impl :=
  let fr := first_reconcile K probe cfg s in
  Impl (desired_deployment K probe cfg s) (Ok (desired_service K s)) (desired_volume K cfg s) (Ok (desired_rbac K s))
       (algorithm_endpoint K s) (early_stopping_endpoint K s)
       (if observed_dials then dialled K s else [])
       (fst fr) (snd fr).

(* the dial targets are observable only when the deployment could be generated (the controller stops before dialling otherwise) *)
Definition dials_observable (K : consts) (probe : bool) (cfg : option katib_config) (s : suggestion) : bool :=
  negb (snd (first_reconcile K probe cfg s)).

Definition impl_eqb (m i : impl) : bool :=
  outcome_eqb deployment_eqb (i_dep m) (i_dep i) && outcome_eqb service_eqb (i_svc m) (i_svc i) &&
  outcome_eqb vol_eqb (i_vol m) (i_vol i) && outcome_eqb rbac_eqb (i_rbac m) (i_rbac i) &&
  seqb (i_alg_ep m) (i_alg_ep i) && seqb (i_es_ep m) (i_es_ep i) &&
  dials_eqb (i_dialled m) (i_dialled i) && objs_eqb (i_created m) (i_created i) && Bool.eqb (i_rec_err m) (i_rec_err i).

Definition agrees (c : case) : bool :=
  impl_eqb (model_impl (c_K c) (c_probe c) (c_cfg c) (c_s c) (dials_observable (c_K c) (c_probe c) (c_cfg c) (c_s c))) (c_impl c).
Definition mismatches := failing agrees.

(* ------------------------------------------------------------------ the property monitor (on implementation objects) *)

(* "the Service selects the Deployment's pods": non-empty selectors included in the pod template's labels, same namespace *)
Definition m_selects (d : deployment) (sv : service) : bool :=
  negb (is_empty (sv_selector sv)) && submap (sv_selector sv) (d_tpl_labels d) &&
  negb (is_empty (d_selector d)) && submap (d_selector d) (d_tpl_labels d) && seqb (sv_ns sv) (d_ns d).

Definition pod_ports (d : deployment) : list port := flat_map ct_ports (d_containers d).
(* some container declares the port a service port forwards to *)
Definition resolves (d : deployment) (sp : sport) : bool :=
  match sp_target sp with
  | TDefault => has_port_num (pod_ports d) (sp_port sp)
  | TNum z => has_port_num (pod_ports d) z
  | TName n => has_port_name (pod_ports d) n
  end.
Definition exposes (sv : service) (z : Z) : bool := existsb (fun sp => Z.eqb (sp_port sp) z) (sv_ports sv).

(* exposes the suggestion port, the early-stopping port iff early stopping is configured, and a container listens on each *)
Definition m_ports (K : consts) (s : suggestion) (d : deployment) (sv : service) : bool :=
  exposes sv (k_port K) && Bool.eqb (exposes sv (k_es_port K)) (es_on s) && forallb (resolves d) (sv_ports sv) &&
  (* <service>.<namespace> must resolve to the pods: any service type but ExternalName *)
  negb (seqb (sv_type sv) "ExternalName"%string).

(* [ep] is <service>.<namespace>:<z> and the service exposes z *)
Definition ep_ok (sv : service) (ep : string) (z : Z) : bool := seqb ep (endpoint (sv_name sv) (sv_ns sv) z) && exposes sv z.

(* the addresses returned by util.Get*Endpoint and every target the suggestionclient really dialled are service addresses
   on the right port: Suggestion clients on the suggestion port, EarlyStopping clients on the early-stopping port *)
Definition m_endpoints (K : consts) (s : suggestion) (sv : service) (i : impl) : bool :=
  ep_ok sv (i_alg_ep i) (k_port K) &&
  (if es_on s then ep_ok sv (i_es_ep i) (k_es_port K) else true) &&
  (if es_wf s then forallb (fun t : bool * string => ep_ok sv (snd t) (if fst t then k_es_port K else k_port K)) (i_dialled i) else true).

(* FromVolume: the pod has a volume on the generated claim, a container mounts it, claim in the pod's namespace *)
Definition m_volume (K : consts) (s : suggestion) (d : deployment) (vol : outcome (pvc * option pv)) : bool :=
  if from_volume K s then
    match vol with
    | Ok (c, _) =>
        existsb (fun v => seqb (v_claim v) (pvc_name c) && existsb (fun ct => has_mount (ct_mounts ct) (v_name v)) (d_containers d))
                (d_volumes d) && seqb (pvc_ns c) (d_ns d)
    | _ => false
    end
  else true.

Definition covers (K : consts) (r : role) (res : string) : bool :=
  existsb (fun ru => (existsb (seqb (k_trial_group K)) (r_groups ru) || existsb (seqb "*"%string) (r_groups ru)) &&
                     (existsb (seqb res) (r_resources ru) || existsb (seqb "*"%string) (r_resources ru)) &&
                     negb (is_empty (r_verbs ru))) (ro_rules r).

(* the service account configured for the algorithm in katib-config ("" when none / no usable entry) *)
Definition custom_sa (cfg : option katib_config) (s : suggestion) : string :=
  match get_suggestion_config cfg (s_algorithm s) with Ok sc => sc_sa sc | _ => ""%string end.

(* early stopping: without a custom service account the pod runs under the generated ServiceAccount, bound by the generated
   RoleBinding to the generated Role, which covers trials and trials/status; with a custom one the pod runs under that one *)
Definition m_rbac (K : consts) (cfg : option katib_config) (s : suggestion) (d : deployment)
           (rb : outcome (sacc * role * rolebinding)) : bool :=
  if es_on s then
    if seqb (custom_sa cfg s) ""%string then
      match rb with
      | Ok (a, r, b) =>
          seqb (d_sa d) (sa_name a) && seqb (sa_ns a) (d_ns d) &&
          existsb (fun j => seqb (sj_kind j) (k_sa_kind K) && seqb (sj_name j) (sa_name a) && seqb (sj_ns j) (sa_ns a)) (rb_subjects b) &&
          seqb (rb_ref_kind b) "Role"%string && seqb (rb_ref_name b) (ro_name r) && seqb (rb_ref_group b) (k_rbac_group K) &&
          seqb (rb_ns b) (ro_ns r) && seqb (ro_ns r) (sa_ns a) &&
          covers K r (k_plural_trial K) && covers K r (cat (k_plural_trial K) "/status"%string)
      | _ => false
      end
    else seqb (d_sa d) (custom_sa cfg s)
  else true.

(* in the suggestion's namespace and controller-owned by it (exactly one controller reference, to the suggestion) *)
Definition owned_by (K : consts) (s : suggestion) (ns : string) (owners : list owner_ref) : bool :=
  seqb ns (s_ns s) &&
  match filter o_controller owners with
  | [o] => seqb (o_api o) (k_owner_api K) && seqb (o_kind o) (k_owner_kind K) && seqb (o_name o) (s_name s) && seqb (o_uid o) (s_uid s)
  | _ => false
  end.

Definition on_ok {A} (o : outcome A) (f : A -> bool) : bool := match o with Ok a => f a | _ => true end.

Definition m_owned (K : consts) (s : suggestion) (i : impl) : bool :=
  on_ok (i_dep i) (fun d => owned_by K s (d_ns d) (d_owners d)) &&
  on_ok (i_svc i) (fun sv => owned_by K s (sv_ns sv) (sv_owners sv)) &&
  on_ok (i_vol i) (fun v => owned_by K s (pvc_ns (fst v)) (pvc_owners (fst v))) &&
  on_ok (i_rbac i) (fun x => let '(a, r, b) := x in
     owned_by K s (sa_ns a) (sa_owners a) && owned_by K s (ro_ns r) (ro_owners r) && owned_by K s (rb_ns b) (rb_owners b)).

(* a config entry that redefines the suggestion port name or number is rejected *)
Definition m_reject (K : consts) (cfg : option katib_config) (s : suggestion) (i : impl) : bool :=
  match get_suggestion_config cfg (s_algorithm s) with
  | Ok sc => if redefines_port K sc then negb (is_ok (i_dep i)) else true
  | _ => true
  end.

(* the generated objects really reach the cluster: after a reconcile without error the Service and the Deployment exist,
   with FromVolume the claim exists, and with early stopping and no custom service account the three RBAC objects exist *)
Definition m_created (K : consts) (cfg : option katib_config) (s : suggestion) (i : impl) : bool :=
  if i_rec_err i then true else
  match i_dep i, i_svc i with
  | Ok d, Ok sv =>
      has_obj (i_created i) (ObjRef (kind_id KDeployment) (d_ns d) (d_name d)) &&
      has_obj (i_created i) (ObjRef (kind_id KService) (sv_ns sv) (sv_name sv)) &&
      (if from_volume K s then on_ok (i_vol i) (fun v => has_obj (i_created i) (ObjRef (kind_id KPVC) (pvc_ns (fst v)) (pvc_name (fst v)))) else true) &&
      (if es_on s && seqb (custom_sa cfg s) ""%string then
         on_ok (i_rbac i) (fun x => let '(a, r, b) := x in
           has_obj (i_created i) (ObjRef (kind_id KServiceAccount) (sa_ns a) (sa_name a)) &&
           has_obj (i_created i) (ObjRef (kind_id KRole) (ro_ns r) (ro_name r)) &&
           has_obj (i_created i) (ObjRef (kind_id KRoleBinding) (rb_ns b) (rb_name b)))
       else true)
  | _, _ => false
  end.

(* a plain, valid input: the algorithm has a usable config entry that touches none of the reserved port/volume/container names, and the
   early-stopping algorithm (if any) has a usable entry.  On such inputs all objects must be generated. *)
Definition plain_input (K : consts) (cfg : option katib_config) (s : suggestion) : bool :=
  match get_suggestion_config cfg (s_algorithm s) with
  | Ok sc =>
      let ps := ct_ports (sc_container sc) in
      negb (has_port_name ps (k_port_name K)) && negb (has_port_num ps (k_port K)) &&
      negb (has_port_name ps (k_es_port_name K)) && negb (has_port_num ps (k_es_port K)) &&
      negb (has_mount (ct_mounts (sc_container sc)) (k_volume K)) && negb (seqb (ct_name (sc_container sc)) (k_ctr_es K)) && es_wf s &&
      (if es_on s then is_ok (get_early_stopping_config cfg (es_name s)) else true)
  | _ => false
  end.

Definition m_generated (K : consts) (cfg : option katib_config) (s : suggestion) (i : impl) : bool :=
  if plain_input K cfg s then is_ok (i_dep i) && is_ok (i_svc i) && is_ok (i_vol i) && is_ok (i_rbac i) && negb (i_rec_err i) else true.

(* whatever the reconcile created is in the suggestion's namespace, or is a cluster-scoped PV *)
Definition m_created_ns (s : suggestion) (i : impl) : bool :=
  forallb (fun o => seqb (or_ns o) (s_ns s) || (Nat.eqb (or_kind o) (kind_id KPV) && seqb (or_ns o) ""%string)) (i_created i).

Definition monitor (K : consts) (cfg : option katib_config) (s : suggestion) (i : impl) : bool :=
  m_owned K s i && m_created_ns s i && m_reject K cfg s i && m_generated K cfg s i &&
  match i_dep i, i_svc i with
  | Ok d, Ok sv =>
      m_selects d sv && m_ports K s d sv && m_endpoints K s sv i && m_volume K s d (i_vol i) &&
      m_rbac K cfg s d (i_rbac i) && m_created K cfg s i
  | _, _ => true
  end.

Definition holds (c : case) : bool := monitor (c_K c) (c_cfg c) (c_s c) (c_impl c).
Definition violations := failing holds.
