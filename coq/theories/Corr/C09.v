(* C09: the requests the real suggestion reconciler sent, against the selection model (mismatches) and against the
   owner-based statement of the property (violations). *)
From KV Require Export Base.Prelude Model.Select.
Open Scope Z_scope.

Record case := Case {
  k_exps : list sexp; k_trials : list strial; k_target : nat;
  k_requests : Z; k_count : Z; k_es : bool;
  k_sug : option (list nat * Z * Z);      (* GetSuggestions: trial names, current, total *)
  k_esr : option (list nat) }.            (* GetEarlyStoppingRules: trial names *)

Definition target (c : case) : sexp := nth (k_target c) (k_exps c) {| se_ns := 0; se_name := 0; se_labels := [] |}.

(* the order of a List answer is the API server's (by name); requests are compared as sets of names *)
Fixpoint insert_nat (n : nat) (l : list nat) : list nat :=
  match l with [] => [n] | h :: t => if Nat.leb n h then n :: l else h :: insert_nat n t end.
Definition sort_nats (l : list nat) : list nat := fold_right insert_nat [] l.
Definition nats_eqb (a b : list nat) : bool := list_eqb Nat.eqb (sort_nats a) (sort_nats b).

(* correspondence: the label-and-namespace selection of the model *)
Definition agrees (c : case) : bool :=
  let s := sent (target c) (k_trials c) in
  match k_sug c with
  | Some (names, cur, tot) => nats_eqb names s && (cur =? k_requests c - k_count c) && (tot =? k_requests c)
  | None => false
  end &&
  match k_esr c with
  | Some names => k_es c && nats_eqb names s
  | None => negb (k_es c)
  end.
Definition mismatches := failing agrees.

(* the property: exactly the experiment's own trials (by ownership), minus metrics-unavailable and early-stopped
   without observation; current = requests - count, total = requests *)
Definition expected (c : case) : list nat :=
  map st_name (filter (fun t => negb (st_mu t) && negb (st_es t && negb (st_obs t))) (own (k_target c) (k_trials c))).

Definition holds (c : case) : bool :=
  match k_sug c with
  | Some (names, cur, tot) => nats_eqb names (expected c) && (cur =? k_requests c - k_count c) && (tot =? k_requests c)
  | None => false
  end &&
  match k_esr c with
  | Some names => k_es c && nats_eqb names (expected c)
  | None => negb (k_es c)
  end.
Definition violations := failing holds.
