(* C03 (decision part): which verdict UpdateExperimentStatus / UpdateExperimentStatusCondition gives; exclusivity.
   [mismatches] : model vs implementation (whole status, collector increments, restartable flag)
   [violations] : the property monitor evaluated on the IMPLEMENTATION's output *)
From KV Require Export Corr.StatusCase.
Open Scope Z_scope.

Definition case := StatusCase.case.
Definition mismatches : list (nat * case) -> list nat := failing agrees.

(* ------------------------------------------------------------------ the property monitor *)

(* Succeeded and Failed never both true; Running false once a verdict exists *)
Definition exclusive (out : estatus) : bool :=
  negb (exp_is_succeeded out && exp_is_failed out) && (negb (exp_is_completed out) || negb (exp_is_running out)).

Definition verdict_ok (spec : espec) (goal : bool) (nfailed nfinished : Z) (out : estatus) : bool :=
  let fr := fail_rule spec nfailed in
  let mr := max_rule spec nfinished in
  Bool.eqb (exp_is_succeeded out) (goal || (negb fr && mr)) &&
  Bool.eqb (exp_is_failed out) (negb goal && fr) &&
  (if goal then option_eqb Nat.eqb (reason_of (e_conds out) ESucceeded) (Some RGoalReached)
   else if fr then option_eqb Nat.eqb (reason_of (e_conds out) EFailed) (Some RExperimentFailed)
   else if mr then option_eqb Nat.eqb (reason_of (e_conds out) ESucceeded) (Some RMaxTrialsReached)
   else true).

Definition monitor_status (spec : espec) (prior : estatus) (ts : list trial) (out : estatus) : bool :=
  if exp_is_completed prior then
    (* an existing verdict, its reason and the completion time are left untouched *)
    conds_eqb (e_conds out) (e_conds prior) && option_eqb Nat.eqb (e_completion out) (e_completion prior)
  else
    exclusive out &&
    (* outside the property's quantifier: non-numeric objective texts, objective type neither minimize nor maximize *)
    (if numeric_domain ts && negb (match obj_type spec with OTUnknown => true | _ => false end)
     then verdict_ok spec (goal_met spec ts) (failed_count ts) (finished_count ts) out
     else true).

(* direct call of UpdateExperimentStatusCondition: counters and goal flag are given; getSuggestionDone = true adds
   a rule that is not part of the property (never passed by this tree): only exclusivity is demanded then *)
Definition monitor_condition (spec : espec) (prior : estatus) (goal done : bool) (out : estatus) : bool :=
  if exp_is_completed prior then true            (* the caller never does this *)
  else
    exclusive out &&
    (if done then true
     else verdict_ok spec goal (failed_trials_count prior) (completed_trials_count prior) out).

Definition holds (c : case) : bool :=
  match c_impl c with
  | Ok out =>
      match c_call c with
      | CallStatus => monitor_status (c_spec c) (c_prior c) (c_trials c) out
      | CallCondition g d => monitor_condition (c_spec c) (c_prior c) g d out
      end
  | _ => false
  end.

Definition violations : list (nat * case) -> list nat := failing holds.
