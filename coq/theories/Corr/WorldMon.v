(* Property monitors of the joint controller model: boolean forms of the statements of C01 C03 C04 C06 C07 C08 C16
   over the sequence of projected states of one history.  They are evaluated on the IMPLEMENTATION's projections
   (case files) and, in Proofs/, shown to hold for the model's own projections. *)
From KV Require Export Corr.WorldC.
Open Scope Z_scope.

(* ------------------------------------------------------------------ vocabulary on projections *)

Definition pt_is (t : ptrial) (k : nat) : bool := has_cond (pt_conds t) k.
Definition pt_completed (t : ptrial) : bool :=
  pt_is t TSucceeded || pt_is t TFailed || pt_is t TKilled || pt_is t TEarlyStopped || pt_is t TMetricsUnavailable.

Definition pe_is (e : pexp) (k : nat) : bool := has_cond (pe_conds e) k.
Definition pe_completed (e : pexp) : bool := pe_is e ESucceeded || pe_is e EFailed.
Definition ps_is (s : psug) (k : nat) : bool := has_cond (ps_conds s) k.

Definition exp_completed (p : proj) : bool := match pj_exp p with Some e => pe_completed e | None => false end.

(* the restart that the user enables by raising maxTrialCount (experiment_controller.go, Reconcile) *)
Definition restart_enabled (cf : cfg) (p : proj) : bool :=
  match pj_exp p with
  | Some e =>
      match get_cond (pe_conds e) ESucceeded with
      | Some c => cstatus_eqb (cstat c) CTrue && Nat.eqb (creason c) RMaxTrialsReached &&
                  match c_resume cf with LongRunning | FromVolume => true | Never => false end &&
                  match pe_max e with Some m => n_trials (pe_counts e) <? m | None => false end
      | None => false
      end
  | None => false
  end.

Definition trial_names (p : proj) : list nat := map pt_name (pj_trials p).

Fixpoint nodupb (l : list nat) : bool :=
  match l with [] => true | a :: r => negb (mem a r) && nodupb r end.

Fixpoint prefixb (a b : list nat) : bool :=
  match a, b with
  | [], _ => true
  | x :: a', y :: b' => Nat.eqb x y && prefixb a' b'
  | _ :: _, [] => false
  end.

Definition union (seen l : list nat) : list nat := fold_left (fun acc n => if mem n acc then acc else acc ++ [n]) l seen.

(* consecutive pairs of a list, with the action in between *)
Fixpoint all_steps (f : proj -> action -> proj -> bool) (prev : proj) (steps : list (action * proj)) : bool :=
  match steps with
  | [] => true
  | (a, p) :: r => f prev a p && all_steps f p r
  end.

Definition all_states (f : proj -> bool) (p0 : proj) (steps : list (action * proj)) : bool :=
  f p0 && forallb (fun ap => f (snd ap)) steps.

Definition initial (c : case) : proj := project (init (k_cfg c)).
Definition last_state (c : case) : proj := last (map snd (k_steps c)) (initial c).
Definition has_teardown (c : case) : bool := existsb (fun ap => is_teardown (fst ap)) (k_steps c).

(* ------------------------------------------------------------------ C01: trial budget *)

Fixpoint budget_walk (cf : cfg) (seen : list nat) (prev : proj) (steps : list (action * proj)) : bool :=
  match steps with
  | [] => true
  | (a, p) :: r =>
      let seen' := union seen (trial_names p) in
      let fresh := filter (fun n => negb (mem n (trial_names prev))) (trial_names p) in
      (* at most maxTrialCount trials ever (the current spec value: the user may have raised it) *)
      (match pj_exp p with
       | Some e => match pe_max e with Some m => Z.of_nat (length seen') <=? m | None => true end
       | None => true end)
      (* at no instant more than parallelTrialCount non-completed trials *)
      && (Z.of_nat (length (filter (fun t => negb (pt_completed t)) (pj_trials p))) <=? c_par cf)
      (* no new trial once a verdict exists, unless the user has enabled a restart *)
      && (match fresh with [] => true | _ => negb (exp_completed prev) || restart_enabled cf prev end)
      && budget_walk cf seen' p r
  end.

Definition budget_ok (c : case) : bool := budget_walk (k_cfg c) [] (initial c) (k_steps c).

(* ------------------------------------------------------------------ C03: verdict exclusive, stable, justified *)

Definition verdict_conds (p : proj) : list (option cond) :=
  match pj_exp p with
  | Some e => [get_cond (pe_conds e) ESucceeded; get_cond (pe_conds e) EFailed]
  | None => []
  end.

Definition meets (cf : cfg) (g : Z) (v : Z) : bool := if c_minimize cf then v <=? g else g <=? v.

(* justified: a verdict that appears is backed by the trials in the store, in the way its reason says; which verdict it is is
   read off the Succeeded condition being TRUE (a leftover Succeeded=False condition is no verdict) *)
Definition justified_step (cf : cfg) (prev p : proj) : bool :=
  if negb (exp_completed prev) && exp_completed p then
    match pj_exp p with
    | Some e =>
        let done := Z.of_nat (length (filter pt_completed (pj_trials p))) in
        let bad := Z.of_nat (length (filter (fun t => pt_is t TFailed || pt_is t TMetricsUnavailable) (pj_trials p))) in
        if pe_is e ESucceeded then
          match get_cond (pe_conds e) ESucceeded with
          | Some c =>
              if Nat.eqb (creason c) RGoalReached then
                match c_goal cf with
                | Some g => existsb (fun t => match pt_obs t with Some (Some v) => meets cf g v | _ => false end) (pj_trials p)
                | None => false end
              else if Nat.eqb (creason c) RMaxTrialsReached then
                match pe_max e with Some m => m <=? done | None => false end
              else false
          | None => false
          end
        else
          match c_maxfailed cf with Some f => (1 <=? bad) && (f <=? bad) | None => false end
          || match pj_sug p with Some s => ps_is s SFailed | None => false end
    | None => true end
  else true.

Definition verdict_step (cf : cfg) (prev : proj) (a : action) (p : proj) : bool :=
  (* exclusive *)
  (match pj_exp p with
   | Some e => negb (pe_is e ESucceeded && pe_is e EFailed) && (negb (pe_completed e) || negb (pe_is e ERunning))
   | None => true end)
  (* stable: untouched by every later step unless a restart is enabled *)
  && (if exp_completed prev && negb (restart_enabled cf prev) && is_some (pj_exp p)
      then list_eqb (option_eqb cond_eqb) (verdict_conds prev) (verdict_conds p) && negb (pj_ctchange p)
      else true)
  && justified_step cf prev p.

Definition verdict_ok (c : case) : bool := all_steps (verdict_step (k_cfg c)) (initial c) (k_steps c).

(* ------------------------------------------------------------------ C06: trial verdicts *)

Definition terminal_types : list nat := [TSucceeded; TFailed; TKilled; TMetricsUnavailable; TEarlyStopped].

Definition find_pt (n : nat) (p : proj) : option ptrial := find (fun t => Nat.eqb (pt_name t) n) (pj_trials p).

Definition trial_step (prev : proj) (a : action) (p : proj) : bool :=
  forallb (fun t =>
    (* Succeeded never coexists with Failed / MetricsUnavailable / EarlyStopped, and needs an objective value *)
    negb (pt_is t TSucceeded && (pt_is t TFailed || pt_is t TMetricsUnavailable || pt_is t TEarlyStopped))
    && (negb (pt_is t TSucceeded) || obs_available (pt_obs t))
    (* terminal conditions are permanent *)
    && match find_pt (pt_name t) prev with
       | Some t0 => forallb (fun k => negb (pt_is t0 k) || pt_is t k) terminal_types
       | None => true
       end) (pj_trials p).

(* at quiescence the verdict matches the job and the reported metrics *)
Definition trial_final (c : case) (p : proj) : bool :=
  forallb (fun t =>
    match find (fun j => Nat.eqb (j_name j) (pt_name t)) (pj_jobs p), db_get (pt_name t) (pj_db p) with
    | Some j, Some v =>
        if pt_is t TEarlyStopped then true
        else match j_phase j with
             | JFail => pt_is t TFailed
             | JSucc => match v with
                        | Some _ =>
                            (* a successful job whose objective value had not been reported when the controller looked
                               is MetricsUnavailable for good, even if the value arrives later (metrics arrive
                               progressively; with the push collector already when nothing had been reported): whether
                               MetricsUnavailable was justified at the time is what [mu_walk] checks *)
                            pt_is t TSucceeded || pt_is t TMetricsUnavailable
                        | None => pt_is t TMetricsUnavailable
                        end
             | JActive => true
             end
    | _, _ => true
    end) (pj_trials p).

(* MetricsUnavailable is reported only for a trial whose objective value was not in the DB when the trial reconcile that
   reports it began (all reads of a reconcile are as of its Begin): [snap] is the DB at the Begin of the trial reconcile in
   progress, with its key *)
Fixpoint mu_walk (snap : option (nat * list (nat * option Z))) (prev : proj) (steps : list (action * proj)) : bool :=
  match steps with
  | [] => true
  | (a, p) :: r =>
      let snap' := match a with
                   | Begin CTrial k _ _ => (* a Begin while a reconcile is pending is ignored *)
                       match pj_pending prev with (_, _, true) => snap | _ => Some (k, pj_db prev) end
                   | _ => snap end in
      forallb (fun t =>
        match find_pt (pt_name t) prev with
        | Some t0 =>
            if pt_is t TMetricsUnavailable && negb (pt_is t0 TMetricsUnavailable) then
              match snap' with
              | Some (k, db) => Nat.eqb k (pt_name t) &&
                                match db_get (pt_name t) db with Some (Some _) => false | _ => true end
              | None => false
              end
            else true
        | None => negb (pt_is t TMetricsUnavailable)
        end) (pj_trials p)
      && mu_walk snap' p r
  end.

(* With a pull collector (StdOut, File, ...) "the reported metrics contain no objective value" presupposes a report: the trial
   controller waits (requeues) while the DB holds nothing for the trial, and reports MetricsUnavailable only when the DB held an
   entry without objective value when the reconcile began.  (Proved for the model's runs without teardown:
   C06_metrics_unavailable_needs_report, Proofs/WorldMuPull.v.) *)
Fixpoint mu_pull_walk (snap : option (nat * list (nat * option Z))) (prev : proj) (steps : list (action * proj)) : bool :=
  match steps with
  | [] => true
  | (a, p) :: r =>
      let snap' := match a with
                   | Begin CTrial k _ _ => match pj_pending prev with (_, _, true) => snap | _ => Some (k, pj_db prev) end
                   | _ => snap end in
      forallb (fun t =>
        match find_pt (pt_name t) prev with
        | Some t0 =>
            if pt_is t TMetricsUnavailable && negb (pt_is t0 TMetricsUnavailable) then
              match snap' with
              | Some (k, db) => match db_get (pt_name t) db with Some None => true | _ => false end
              | None => false
              end
            else true
        | None => true
        end) (pj_trials p)
      && mu_pull_walk snap' p r
  end.

Definition trial_ok (c : case) : bool :=
  all_steps trial_step (initial c) (k_steps c) && mu_walk None (initial c) (k_steps c) &&
  (c_push (k_cfg c) || has_teardown c || mu_pull_walk None (initial c) (k_steps c)) &&
  match k_quiet c with Some _ => trial_final c (last_state c) | None => true end.

(* ------------------------------------------------------------------ C07: run object lifecycle *)

Definition job_names (p : proj) : list nat := map j_name (pj_jobs p).

Definition job_step (prev : proj) (a : action) (p : proj) : bool :=
  (* a run object appears only while its trial is not completed, disappears only when it is *)
  forallb (fun n => mem n (job_names prev) ||
                    match find_pt n prev with Some t => negb (pt_completed t) | None => false end) (job_names p)
  && forallb (fun n => mem n (job_names p) ||
                       match find_pt n prev with Some t => pt_completed t | None => true end) (job_names prev).

Definition job_final (c : case) (p : proj) : bool :=
  forallb (fun t =>
    if pt_completed t then
      if c_retain (k_cfg c) then mem (pt_name t) (job_names p) || negb (mem (pt_name t) (k_jobcreates c))
                                 || existsb (fun ap => match fst ap with JobGone n => Nat.eqb n (pt_name t) | _ => false end) (k_steps c)
      else negb (mem (pt_name t) (job_names p))
    else true) (pj_trials p).

Definition job_ok (c : case) : bool :=
  nodupb (k_jobcreates c)                                           (* at most one run object per trial, ever *)
  && all_steps job_step (initial c) (k_steps c)
  && forallb (fun n => mem n (k_dbdeletes c)) (k_finreleased c)     (* logs removed before the finalizer is released *)
  && match k_quiet c with Some _ => job_final c (last_state c) | None => true end.

(* ------------------------------------------------------------------ C08: suggestions append-only, counted, atomic *)

Definition sug_names (p : proj) : list nat := match pj_sug p with Some s => ps_names s | None => [] end.

(* [lastreply]: the names of the reply handed to the suggestion reconcile in progress, when the whole sync it allows succeeds
   (with early stopping the rules call must succeed too); a Begin that finds a reconcile pending is ignored *)
Fixpoint sug_walk (cf : cfg) (maxreq : Z) (lastreply : option (list nat)) (prev : proj) (steps : list (action * proj)) : bool :=
  match steps with
  | [] => true
  | (a, p) :: r =>
      let lastreply' := match a with
                        | Begin CSug _ resp _ =>
                            match pj_pending prev with
                            | (_, true, _) => lastreply
                            | _ => match r_reply resp with
                                   | ReplyOk names _ => if negb (c_es cf) || r_esrules resp then Some names else None
                                   | ReplyErr => None end
                            end
                        | _ => lastreply end in
      match pj_sug p with
      | None => sug_walk cf maxreq lastreply' p r
      | Some s =>
          let maxreq' := Z.max maxreq (ps_requests s) in
          nodupb (ps_names s) && (ps_count s =? Z.of_nat (length (ps_names s))) && (ps_count s <=? maxreq')
          && match pj_sug prev with
             | None => match ps_names s with [] => true | _ => false end
             | Some s0 =>
                 prefixb (ps_names s0) (ps_names s)
                 && (if Nat.eqb (length (ps_names s0)) (length (ps_names s))
                     then (ps_count s0 =? ps_count s) && Nat.eqb (ps_settings s0) (ps_settings s)
                     else (* one sync: exactly requests - count names, all of one successful reply *)
                       (Z.of_nat (length (ps_names s)) - Z.of_nat (length (ps_names s0)) =? ps_requests s0 - ps_count s0)
                       && match lastreply' with
                          | Some names => list_eqb Nat.eqb (skipn (length (ps_names s0)) (ps_names s)) names
                          | None => false end)
             end
          && sug_walk cf maxreq' lastreply' p r
      end
  end.

Definition suggestions_ok (c : case) : bool := sug_walk (k_cfg c) 0 None (initial c) (k_steps c).

(* ------------------------------------------------------------------ C04: quiescence implies a verdict, no hot loop *)

Definition env_done (p : proj) : bool :=
  forallb (fun j => negb (jphase_eqb (j_phase j) JActive)) (pj_jobs p)
  && forallb (fun t => match db_get (pt_name t) (pj_db p) with
                       | Some v => negb (pt_is t TEarlyStopped) || is_some v
                       | None => false end) (pj_trials p)
  && match pj_sug p, i_dep (pj_infra p) with
     | Some s, Some av => av || ps_is s SSucceeded || ps_is s SFailed
     | _, _ => true
     end.

(* the final round really reconciles everything on synced caches, and nothing happens in it *)
Definition quiet_round (c : case) (q : nat) : bool :=
  let seg := skipn q (k_steps c) in
  let before := last (map snd (firstn q (k_steps c))) (initial c) in
  let acts := map fst seg in
  nonempty seg
  && forallb (fun ap => store_eqb before (snd ap) && Nat.eqb (pj_writes before) (pj_writes (snd ap))) seg
  && existsb (fun a => match a with SyncExp => true | _ => false end) acts
  && existsb (fun a => match a with SyncSug => true | _ => false end) acts
  && existsb (fun a => match a with SyncTrials => true | _ => false end) acts
  && existsb (fun a => match a with Begin CExp _ _ _ => true | _ => false end) acts
  && (negb (is_some (pj_sug before)) || existsb (fun a => match a with Begin CSug _ _ _ => true | _ => false end) acts)
  && forallb (fun n => existsb (fun a => match a with Begin CTrial k _ _ => Nat.eqb k n | _ => false end) acts) (trial_names before).

Definition has_raise (c : case) : bool :=
  existsb (fun ap => match fst ap with UserRaiseMax _ => true | _ => false end) (k_steps c).

(* at rest with a finished environment an experiment with a budget carries its verdict *)
Definition verdict_at_rest (c : case) : bool :=
  let p := last_state c in
  negb (env_done p) || match pj_exp p with Some e => negb (is_some (pe_max e)) || pe_completed e | None => true end.

(* The property quantifies over environment events and faults, not over spec edits: the verdict clause judges the histories
   in which maxTrialCount is never raised (for those with a raise it is the restart clause of C16, below). *)
Definition quiescent_ok (c : case) : bool :=
  match k_quiet c with
  | Some q => quiet_round c q && (has_raise c || verdict_at_rest c)
  | None =>
      (* the harness drives every history with a budget to quiescence; failing to get there is a hot loop.
         Experiments without maxTrialCount legitimately run for ever while they have no verdict (the property speaks
         of maxTrialCount set); once they carry a verdict they must come to rest like any other. *)
      has_teardown c || match pj_exp (last_state c) with Some e => negb (is_some (pe_max e)) && negb (pe_completed e) | None => true end
  end.

(* ------------------------------------------------------------------ C16: resume policy *)

(* the suggestion as the implementation's suggestion cache holds it: the store at the last SyncSug *)
Fixpoint rpc_walk (cached : option psug) (prev : proj) (steps : list (action * proj)) : bool :=
  match steps with
  | [] => true
  | (a, p) :: r =>
      let cached' := match a with SyncSug => pj_sug prev | _ => cached end in
      (match a, cached with
       | Begin CSug _ _ _, Some s => negb (ps_is s SSucceeded) || Nat.eqb (pj_nrpc prev) (pj_nrpc p)
       | _, _ => true end)
      && rpc_walk cached' p r
  end.

Definition resume_final (c : case) (p : proj) : bool :=
  match pj_exp p, pj_sug p with
  | Some e, Some s =>
      if pe_completed e && negb (ps_is s SFailed) then
        match c_resume (k_cfg c) with
        | LongRunning => is_some (i_dep (pj_infra p)) && i_svc (pj_infra p) && negb (ps_is s SSucceeded)
        | _ => ps_is s SSucceeded && negb (is_some (i_dep (pj_infra p))) && negb (i_svc (pj_infra p))
                 && (negb (existsb (fun ap => i_pvc (pj_infra (snd ap))) (k_steps c)) || i_pvc (pj_infra p))
        end
      else true
  | _, _ => true
  end.

(* a failed suggestion: the experiment fails through it; cleanup then still has to happen (known finding F14) *)
Definition resume_final_failed (c : case) (p : proj) : bool :=
  match pj_exp p, pj_sug p with
  | Some e, Some s =>
      if pe_completed e && ps_is s SFailed then
        match c_resume (k_cfg c) with
        | LongRunning => true
        | _ => negb (is_some (i_dep (pj_infra p))) && negb (i_svc (pj_infra p))
        end
      else true
  | _, _ => true
  end.

(* a verdict is withdrawn (the experiment restarts) only when the restart is enabled: succeeded by reaching max trials,
   resumePolicy LongRunning or FromVolume, maxTrialCount raised above the trials counted in the status *)
Definition restart_step (cf : cfg) (prev : proj) (a : action) (p : proj) : bool :=
  if exp_completed prev && negb (exp_completed p) && is_some (pj_exp p) then restart_enabled cf prev else true.

(* the Succeeded condition of the suggestion is withdrawn (restartSuggestion) only on behalf of an enabled restart.  The
   experiment controller decides on its cached experiment, which is an earlier state of the stored one: so the restart
   must be enabled in the stored experiment now or at some earlier step of the history. *)
Definition sug_succeeded (p : proj) : bool := match pj_sug p with Some s => ps_is s SSucceeded | None => false end.

Fixpoint sug_restart_walk (cf : cfg) (seen : bool) (prev : proj) (steps : list (action * proj)) : bool :=
  match steps with
  | [] => true
  | (a, p) :: rest =>
      let seen' := seen || restart_enabled cf prev in
      (if sug_succeeded prev && negb (sug_succeeded p) && is_some (pj_sug p) then seen' else true)
      && sug_restart_walk cf seen' p rest
  end.

(* after a raise of maxTrialCount the experiment runs up to the new budget: at rest it carries a verdict again *)
Definition restart_progress (c : case) : bool :=
  match k_quiet c with Some _ => negb (has_raise c) || verdict_at_rest c | None => true end.

(* the user can raise maxTrialCount of an experiment that runs, or that succeeded by reaching max trials under LongRunning /
   FromVolume (however often it was restarted before): the update rule of the validating webhook (C15) admits the edit *)
Definition raise_step (cf : cfg) (prev : proj) (a : action) (p : proj) : bool :=
  match a, pj_exp prev with
  | UserRaiseMax n, Some e =>
      match pe_max e with
      | Some m =>
          let restartable :=
            match get_cond (pe_conds e) ESucceeded with
            | Some c => cstatus_eqb (cstat c) CTrue && Nat.eqb (creason c) RMaxTrialsReached &&
                        match c_resume cf with LongRunning | FromVolume => true | Never => false end
            | None => false end in
          if (m <? n) && negb (pe_deleting e) && (negb (pe_completed e) || restartable)
          then match pj_exp p with Some e' => match pe_max e' with Some m' => m' =? n | None => false end | None => false end
          else true
      | None => true
      end
  | _, _ => true
  end.

(* a raise of maxTrialCount that enables a restart does restart the experiment: at rest no restart is left enabled (an
   experiment reconcile on synced caches would take it) *)
Definition restart_taken (c : case) : bool :=
  match k_quiet c with Some _ => negb (restart_enabled (k_cfg c) (last_state c)) | None => true end.

(* under LongRunning the suggestion is never marked Succeeded (the algorithm service is not cleaned up) *)
Definition longrunning_never_succeeded (c : case) : bool :=
  match c_resume (k_cfg c) with
  | LongRunning => all_states (fun p => negb (sug_succeeded p)) (initial c) (k_steps c)
  | _ => true
  end.

Definition resume_ok (c : case) : bool :=
  restart_progress c && restart_taken c && all_steps (raise_step (k_cfg c)) (initial c) (k_steps c) && longrunning_never_succeeded c &&
  all_steps (restart_step (k_cfg c)) (initial c) (k_steps c) &&
  sug_restart_walk (k_cfg c) false (initial c) (k_steps c) &&
  rpc_walk None (initial c) (k_steps c)
  && match k_quiet c with Some _ => resume_final c (last_state c) && resume_final_failed c (last_state c) | None => true end.

(* everything but the clause that the known finding F18 violates *)
Definition resume_ok_modulo_f18 (c : case) : bool :=
  restart_taken c && all_steps (raise_step (k_cfg c)) (initial c) (k_steps c) && longrunning_never_succeeded c &&
  all_steps (restart_step (k_cfg c)) (initial c) (k_steps c) &&
  sug_restart_walk (k_cfg c) false (initial c) (k_steps c) &&
  rpc_walk None (initial c) (k_steps c)
  && match k_quiet c with Some _ => resume_final c (last_state c) && resume_final_failed c (last_state c) | None => true end.

(* everything but the clause that the known finding F14 violates *)
Definition resume_ok_modulo_f14 (c : case) : bool :=
  restart_progress c && restart_taken c && all_steps (raise_step (k_cfg c)) (initial c) (k_steps c) && longrunning_never_succeeded c &&
  all_steps (restart_step (k_cfg c)) (initial c) (k_steps c) &&
  sug_restart_walk (k_cfg c) false (initial c) (k_steps c) &&
  rpc_walk None (initial c) (k_steps c)
  && match k_quiet c with Some _ => resume_final c (last_state c) | None => true end.
