(* All monitors of the joint controller model evaluated on one case file (shared simulation). *)
From KV Require Export Corr.WorldMon.
Definition case := WorldC.case.
Definition mismatches := WorldC.mismatches.
Definition violations_C01 := failing budget_ok.
Definition violations_C03 := failing verdict_ok.
Definition violations_C04 := failing quiescent_ok.
Definition violations_C06 := failing trial_ok.
Definition violations_C07 := failing job_ok.
Definition violations_C08 := failing suggestions_ok.
Definition violations_C16 := failing resume_ok.
Definition violations_C16w := failing resume_ok_modulo_f14.
Definition violations_C16x := failing resume_ok_modulo_f18.
