(* C19: comparison functions evaluated on generated case files.
   [mismatches] : model vs implementation (correspondence)
   [violations] : the property monitor evaluated on the IMPLEMENTATION's output only
   A case is one request sent to the real code (DB layer directly, or through the gRPC handler of cmd/db-manager) over a
   recording database/sql connection; the observed output is the answer kind and every call that reached the driver,
   with its exact text and bound values. *)
From KV Require Export Base.Prelude Model.Sql.


Inductive kind := KOk | KErr | KCrash.

Record case := Case {
  c_level : level;
  c_dialect : dialect;
  c_fault : nat;                            (* k > 0: the k-th call reaching the database driver was made to fail *)
  c_req : request;
  c_kind : kind;                            (* implementation: answered ok / answered an error / panicked *)
  c_stmts : list stmt;                      (* implementation: calls that reached the driver, in order *)
  c_twin : option (list (call * string))    (* implementation, run on the canonical request of the same shape (plain
                                               identifiers as strings, one fixed valid time): entry points and texts;
                                               None when that run did not answer ok *)
}.

(* ------------------------------------------------------------------ decidable equalities *)

Definition call_eqb (a b : call) : bool :=
  match a, b with
  | CPrepare, CPrepare | CStmtExec, CStmtExec | CExec, CExec | CQuery, CQuery => true
  | _, _ => false
  end.

Definition ct_eqb (a b : call * string) : bool := call_eqb (fst a) (fst b) && String.eqb (snd a) (snd b).

Definition stmt_eqb (a b : stmt) : bool := ct_eqb (fst a) (fst b) && list_eqb Nat.eqb (snd a) (snd b).

Definition dialect_eqb (a b : dialect) : bool :=
  match a, b with Mysql, Mysql | Postgres, Postgres => true | _, _ => false end.

Definition shape_eqb (a b : shape) : bool :=
  match a, b with
  | ShReport k1, ShReport k2 => Nat.eqb k1 k2
  | ShGet m1 s1 e1, ShGet m2 s2 e2 => Bool.eqb m1 m2 && Bool.eqb s1 s2 && Bool.eqb e1 e2
  | ShDelete, ShDelete => true
  | _, _ => false
  end.

(* ------------------------------------------------------------------ correspondence *)

(* a database failure injected at the f-th driver call: the operation answers an error after attempting f calls *)
Definition with_fault (f : nat) (o : outcome (list stmt)) : outcome (list stmt) * list stmt :=
  match o with
  | Ok s => if (0 <? f) && (f <=? length s) then (Err 20, firstn f s) else (Ok s, s)
  | Err c => (Err c, [])
  | Crash k => (Crash k, [])
  end.

(* A modelled crash site of the DB layer may be guarded by an error answer in the implementation (a repair inside the DB
   layer must not raise a correspondence alarm); everything else must agree in kind. *)
Definition kind_agrees (lv : level) (o : outcome (list stmt)) (k : kind) : bool :=
  match o, k with
  | Ok _, KOk => true
  | Err _, KErr => true
  | Crash _, KCrash => true
  | Crash _, KErr => match lv with LDb => true | LHandler => false end
  | _, _ => false
  end.

Definition agrees (c : case) : bool :=
  let '(o, attempted) := with_fault (c_fault c) (run_op (c_level c) (c_dialect c) (c_req c)) in
  kind_agrees (c_level c) o (c_kind c) && list_eqb stmt_eqb attempted (c_stmts c).

Definition mismatches := failing agrees.

(* ------------------------------------------------------------------ the property monitor *)

Definition is_kerr (k : kind) : bool := match k with KErr => true | _ => false end.
Definition is_kcrash (k : kind) : bool := match k with KCrash => true | _ => false end.

Definition is_prepare (s : stmt) : bool := match fst (fst s) with CPrepare => true | _ => false end.

(* exactly one executing call, carrying exactly the prescribed values in order; Prepare carries none *)
Definition rows_ok (q : request) (s : list stmt) : bool :=
  match filter (fun st => negb (is_prepare st)) s with
  | [st] => list_eqb Nat.eqb (snd st) (expected_args q)
  | _ => false
  end &&
  forallb (fun st => match snd st with [] => true | _ => false end) (filter is_prepare s).

(* every executing call has as many placeholders as bound values: one row of 4 per timestamped entry *)
Definition placeholders_ok (d : dialect) (s : list stmt) : bool :=
  forallb (fun st => is_prepare st || Nat.eqb (count_char (ph_char d) (snd (fst st))) (length (snd st))) s.

(* same shape => same text: against the canonical request of the same shape, run by the implementation *)
Definition twin_ok (s : list stmt) (t : option (list (call * string))) : bool :=
  match t with Some l => list_eqb ct_eqb (map call_text s) l | None => false end.

Definition skipped (c : case) : bool :=
  (* the DB layer called directly with a missing sub-message: outside the property (its caller, the handler, must not
     pass one); the model still predicts the outcome, see [agrees] *)
  match c_level c with LDb => has_nil (c_req c) | LHandler => false end.

Definition holds (c : case) : bool :=
  let q := c_req c in
  if skipped c then true
  else
    negb (is_kcrash (c_kind c)) &&
    (if must_err q then is_kerr (c_kind c)
     else if has_nil q then true        (* an entry with empty time stamp and no metric: skipped or rejected, both fine *)
     else match c_kind c with
          | KOk => rows_ok q (c_stmts c) && placeholders_ok (c_dialect c) (c_stmts c) && twin_ok (c_stmts c) (c_twin c)
          | KErr => 0 <? c_fault c        (* only a database failure excuses an error on a well-formed request *)
          | KCrash => false
          end).

(* same shape => same text, across the cases of one run: every ok case is compared with the first ok case of the same
   dialect and shape *)
Definition eligible (c : case) : bool :=
  negb (skipped c) && match c_kind c with KOk => true | _ => false end.

Definition same_group (a b : case) : bool :=
  dialect_eqb (c_dialect a) (c_dialect b) && shape_eqb (shape_of (c_req a)) (shape_of (c_req b)).

Definition cross_ok (cs : list (nat * case)) (c : case) : bool :=
  if eligible c then
    match find (fun p => eligible (snd p) && same_group (snd p) c) cs with
    | Some p => list_eqb ct_eqb (map call_text (c_stmts (snd p))) (map call_text (c_stmts c))
    | None => true
    end
  else true.

Definition violations (cs : list (nat * case)) : list nat := failing (fun c => holds c && cross_ok cs c) cs.
