(* C05: experiment status summarises its trials; optimal trial.
   [mismatches] : model vs implementation (whole status, collector increments, restartable flag)
   [violations] : the property monitor evaluated on the IMPLEMENTATION's output *)
From KV Require Export Corr.StatusCase.
Open Scope Z_scope.

Definition case := StatusCase.case.
Definition mismatches : list (nat * case) -> list nat := failing agrees.

(* ------------------------------------------------------------------ the property monitor *)

Definition count_name (n : nat) (l : list nat) : nat := length (filter (Nat.eqb n) l).

(* equal as multisets *)
Definition same_names (a b : list nat) : bool :=
  Nat.eqb (length a) (length b) && forallb (fun n => Nat.eqb (count_name n a) (count_name n b)) a.

(* every trial is listed in exactly the list of its class (as often as it occurs in the input), each counter is
   the length of its list, status.trials is their sum *)
Definition partition_ok (ts : list trial) (out : estatus) : bool :=
  forallb (fun k => same_names (list_of k out) (map t_name (filter (in_class k) ts)) &&
                    (counter_of k out =? zlen (list_of k out))) all_classes &&
  (e_trials out =? fold_right Z.add 0 (map (fun k => counter_of k out) all_classes)).

(* currentOptimalTrial names a trial whose objective value is the extremum over all available numeric values and
   carries that trial's assignments and observation.  Reading used where the statement is silent: when no trial
   has an available objective value the reconcile does not touch currentOptimalTrial.  No demand when some
   objective value is a non-numeric text or the objective type is neither minimize nor maximize (outside the
   property's quantifier). *)
Definition names_optimum (spec : espec) (ts : list trial) (o : optimal) : bool :=
  existsb (fun t =>
    Nat.eqb (t_name t) (best_name o) &&
    match numeric_value t with
    | Some v => forallb (as_good (obj_type spec) v) (numeric_values ts)
    | None => false
    end &&
    list_eqb pair_eqb (best_assignments o) (t_assignments t) &&
    option_eqb (list_eqb metric_eqb) (Some (best_observation o)) (t_observation t)) ts.

Definition optimal_ok (spec : espec) (prior : estatus) (ts : list trial) (out : estatus) : bool :=
  if negb (existsb available ts) then optimal_eqb (e_optimal out) (e_optimal prior)
  else if numeric_domain ts then
    match obj_type spec with
    | OTUnknown => true
    | _ => names_optimum spec ts (e_optimal out)
    end
  else true.

Definition monitor (spec : espec) (prior : estatus) (ts : list trial) (out : estatus) : bool :=
  partition_ok ts out && optimal_ok spec prior ts out.

Definition holds (c : case) : bool :=
  match c_call c, c_impl c with
  | CallStatus, Ok out => monitor (c_spec c) (c_prior c) (c_trials c) out
  | CallStatus, _ => false                       (* a panic or an error is not a summary *)
  | CallCondition _ _, _ => true                 (* not a C05 case *)
  end.

Definition violations : list (nat * case) -> list nat := failing holds.
