(* C12: comparison functions evaluated on generated case files.
   [mismatches] : model ([Inject.handle]) vs implementation (correspondence, on D_ok only)
   [violations] : the property monitor evaluated on the IMPLEMENTATION's verdict *)
From KV Require Export Base.Prelude Base.Packed Model.Inject Model.InjectSpec.
Open Scope string_scope.
Open Scope list_scope.

Record case := Case { c_world : world; c_ns : string; c_pod : pod; c_impl : verdict }.

(* fuel used on cases: one more than the number of cluster objects (enough for every acyclic chain the
   generator builds; an exhausted fuel shows up as a mismatch, the model answers Rejected 1 99) *)
Definition case_fuel (W : world) : nat := S (length (w_objects W)).

(* ------------------------------------------------------------------ decidable equalities *)
Definition pair_dec : forall a b : string * string, {a = b} + {a <> b}.
Proof. decide equality; apply string_dec. Defined.
Definition labels_dec : forall a b : labels, {a = b} + {a <> b} := list_eq_dec pair_dec.
Definition strings_dec : forall a b : list string, {a = b} + {a <> b} := list_eq_dec string_dec.
Definition optgv_dec : forall a b : option (string * string), {a = b} + {a <> b}.
Proof. decide equality; apply pair_dec. Defined.
Definition oref_dec : forall a b : oref, {a = b} + {a <> b}.
Proof. decide equality; try apply string_dec; apply optgv_dec. Defined.
Definition envval_dec : forall a b : envval, {a = b} + {a <> b}.
Proof. decide equality; [apply Nat.eq_dec|apply string_dec]. Defined.
Definition envvar_dec : forall a b : envvar, {a = b} + {a <> b}.
Proof. decide equality; [apply envval_dec|apply string_dec]. Defined.
Definition mount_dec : forall a b : mount, {a = b} + {a <> b}.
Proof. decide equality; try apply string_dec; apply Nat.eq_dec. Defined.
Definition container_dec : forall a b : container, {a = b} + {a <> b}.
Proof.
  decide equality; try apply string_dec; try apply strings_dec; try apply Nat.eq_dec;
    [apply (list_eq_dec mount_dec)|apply (list_eq_dec envvar_dec)].
Defined.
Definition vsource_dec : forall a b : vsource, {a = b} + {a <> b}.
Proof. decide equality; [apply string_dec|apply Nat.eq_dec]. Defined.
Definition volume_dec : forall a b : volume, {a = b} + {a <> b}.
Proof. decide equality; [apply vsource_dec|apply string_dec]. Defined.
Definition optbool_dec : forall a b : option bool, {a = b} + {a <> b}.
Proof. decide equality; apply bool_dec. Defined.
Definition optstring_dec : forall a b : option string, {a = b} + {a <> b}.
Proof. decide equality; apply string_dec. Defined.

Definition dec2b {P : Prop} (d : {P} + {~ P}) : bool := if d then true else false.
Lemma dec2b_true (P : Prop) (d : {P} + {~ P}) : dec2b d = true <-> P.
Proof. unfold dec2b. destruct d; split; auto; discriminate. Qed.

(* ------------------------------------------------------------------ labels are a Go map: compared as finite maps *)
Definition keys (l : labels) : list string := map fst l.
Fixpoint nodupb (l : list string) : bool :=
  match l with
  | [] => true
  | a :: r => negb (existsb (seqb a) r) && nodupb r
  end.

Definition labels_same (a b : labels) : bool :=
  nodupb (keys a) && nodupb (keys b) && Nat.eqb (length a) (length b) &&
  forallb (fun k => dec2b (optstring_dec (lookup_label k a) (lookup_label k b))) (keys a ++ keys b).

(* everything of a pod except the labels *)
Definition pod_same_but_labels (a b : pod) : bool :=
  dec2b (string_dec (p_kind a) (p_kind b)) && dec2b (string_dec (p_name a) (p_name b)) &&
  dec2b (list_eq_dec oref_dec (p_owners a) (p_owners b)) &&
  dec2b (list_eq_dec container_dec (p_containers a) (p_containers b)) &&
  dec2b (list_eq_dec volume_dec (p_volumes a) (p_volumes b)) &&
  dec2b (optbool_dec (p_share a) (p_share b)) && Nat.eqb (p_rest a) (p_rest b).

Definition pod_same (a b : pod) : bool := pod_same_but_labels a b && labels_same (p_labels a) (p_labels b).

(* panics are compared without their site (the harness only sees the Go panic text) *)
Definition verdict_same (m i : verdict) : bool :=
  match m, i with
  | Unchanged, Unchanged => true
  | Patched a, Patched b => pod_same a b
  | Rejected s e, Rejected s' e' => Nat.eqb s s' && Nat.eqb e e'
  | Panicked _, Panicked _ => true
  | _, _ => false
  end.

Definition agrees (c : case) : bool :=
  verdict_same (handle (c_world c) (c_ns c) (case_fuel (c_world c)) (c_pod c)) (c_impl c).
Definition mismatches := failing agrees.

(* ------------------------------------------------------------------ the property monitor *)
(* It classifies the INPUT with the specification notions of InjectSpec.v ([jobs], [regular]: a search over all owner
   references that knows nothing of getKatibJob's loop) and judges the implementation's verdict:
     no Trial ancestor                                  -> Unchanged
     a unique Trial job on a regular ownership graph, whose Trial exists:
        non-primary pod or Push collector               -> Patched, labels (+ KATIB_TRIAL_NAME) only
        primary pod: Patched                            -> every container, the collector, volumes, labels, shareProcessNamespace
                     Rejected / Panicked / Unchanged    -> only if some admission condition fails ([admissible])
     anything else (dangling or unparsable owner references, several distinct jobs, job name without Trial,
     duplicate label keys in the input)                 -> not covered by the property: accepted *)
Definition labels_ok (K : consts) (t : trial) (pl l' : labels) : bool :=
  nodupb (keys l') &&
  forallb (fun k => dec2b (optstring_dec (lookup_label k l') (expected_label K t pl k)))
          (keys l' ++ keys pl ++ keys (t_labels t) ++ [k_label_trial K]).

Definition frame_ok (p p' : pod) : bool :=
  dec2b (string_dec (p_kind p) (p_kind p')) && dec2b (string_dec (p_name p) (p_name p')) &&
  dec2b (list_eq_dec oref_dec (p_owners p) (p_owners p')) && Nat.eqb (p_rest p) (p_rest p').

Definition containers_eqb (a b : list container) : bool := dec2b (list_eq_dec container_dec a b).
Definition volumes_eqb (a b : list volume) : bool := dec2b (list_eq_dec volume_dec a b).

Definition labels_only_ok (W : world) (t : trial) (p p' : pod) : bool :=
  let K := w_consts W in
  labels_ok K t (p_labels p) (p_labels p') && frame_ok p p' &&
  containers_eqb (p_containers p')
     (match primary_index (p_containers p) (t_primary_container t) with
      | Some i => update_nth i (add_env (trial_env K)) (p_containers p)
      | None => p_containers p
      end) &&
  volumes_eqb (p_volumes p') (p_volumes p) && dec2b (optbool_dec (p_share p') (p_share p)).

Definition primary_ok (W : world) (t : trial) (p p' : pod) : bool :=
  let K := w_consts W in
  match primary_index (p_containers p) (t_primary_container t), get_mount_path K t, expected_collector_base W t p with
  | Some pidx, Ok (mp, isf), Some col =>
      match nth_error (p_containers p) pidx with
      | Some pc =>
          if need_wrap (t_kind t) && match c_command pc with [] => true | _ => false end then true (* command from the image: not covered *)
          else
            labels_ok K t (p_labels p) (p_labels p') && frame_ok p p' &&
            containers_eqb (p_containers p')
               (mapi (expected_container W t (c_name col) mp isf pidx (c_command pc ++ c_args pc)) (p_containers p)
                ++ [expected_collector W mp isf col]) &&
            volumes_eqb (p_volumes p') (expected_volumes W t mp (p_volumes p)) &&
            dec2b (optbool_dec (p_share p') (Some true))
      | None => false
      end
  | _, _, _ => false
  end.

Definition labels_only_class (t : trial) (p : pod) : bool :=
  negb (is_primary_pod (p_labels p) (t_primary_pod_labels t)) || match t_kind t with KPush => true | _ => false end.

Definition trial_monitor (W : world) (t : trial) (p : pod) (v : verdict) : bool :=
  if labels_only_class t p then match v with Patched p' => labels_only_ok W t p p' | _ => false end
  else match v with
       | Patched p' => primary_ok W t p p'
       | _ => negb (admissible W t p)
       end.

Definition pod_jobs (W : world) (ns : string) (p : pod) : list string :=
  jobs (w_consts W) (w_objects W) ns (case_fuel W) (p_kind p) (p_name p) (p_owners p).

Definition monitor (W : world) (ns : string) (p : pod) (v : verdict) : bool :=
  match pod_jobs W ns p with
  | [] => match v with Unchanged => true | _ => false end
  | job :: rest =>
      if regular (w_consts W) (w_objects W) ns (case_fuel W) (p_kind p) (p_owners p) && forallb (seqb job) rest && nodupb (keys (p_labels p)) then
        match find_trial W ns job with
        | Some t => trial_monitor W t p v
        | None => true
        end
      else true
  end.

Definition holds (c : case) : bool := monitor (c_world c) (c_ns c) (c_pod c) (c_impl c).
Definition violations := failing holds.
