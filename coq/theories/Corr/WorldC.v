(* Correspondence between Model/World.v and the simulator (harness/internal/sim): the projection of a world to
   the observables the simulator prints after every action, and their comparison. Shared by C01 C03 C04 C06 C07 C08 C16. *)
From KV Require Export Base.Prelude Base.Cond Model.World.
Open Scope Z_scope.

Record pexp := { pe_max : option Z; pe_fin : bool; pe_deleting : bool; pe_conds : conds; pe_counts : counts;
                 pe_classes : list (nat * class); pe_opt : option (nat * obs); pe_ctime : bool }.
Record psug := { ps_requests : Z; ps_names : list nat; ps_count : Z; ps_conds : conds; ps_settings : nat }.
Record ptrial := { pt_name : nat; pt_conds : conds; pt_obs : obs; pt_ctime : bool; pt_fin : bool; pt_deleting : bool }.

Record proj := {
  pj_exp : option pexp; pj_sug : option psug; pj_trials : list ptrial; pj_jobs : list job; pj_infra : infra;
  pj_db : list (nat * option Z); pj_pending : bool * bool * bool; pj_writes : nat; pj_nrpc : nat;
  pj_ctchange : bool (* implementation only: the experiment's completion time changed during this action *) }.

Definition is_some {A} (o : option A) : bool := match o with Some _ => true | None => false end.
Definition nonempty {A} (l : list A) : bool := match l with [] => false | _ => true end.

Fixpoint insert_job (j : job) (l : list job) : list job :=
  match l with
  | [] => [j]
  | h :: t => if Nat.leb (j_name j) (j_name h) then j :: l else h :: insert_job j t
  end.
Definition sort_jobs (l : list job) : list job := fold_right insert_job [] l.

Definition project (w : world) : proj :=
  {| pj_exp := match w_exp w with
               | Some e => Some {| pe_max := e_max e; pe_fin := e_fin e; pe_deleting := e_deleting e; pe_conds := es_conds (e_st e);
                                   pe_counts := es_counts (e_st e); pe_classes := es_classes (e_st e); pe_opt := es_opt (e_st e);
                                   pe_ctime := is_some (es_ctime (e_st e)) |}
               | None => None end;
     pj_sug := match w_sug w with
               | Some s => Some {| ps_requests := s_requests s; ps_names := ss_names (s_st s); ps_count := ss_count (s_st s);
                                   ps_conds := ss_conds (s_st s); ps_settings := ss_settings (s_st s) |}
               | None => None end;
     pj_trials := map (fun t => {| pt_name := t_name t; pt_conds := t_conds t; pt_obs := t_obs t; pt_ctime := is_some (t_ctime t);
                                   pt_fin := t_fin t; pt_deleting := t_deleting t |}) (w_trials w);
     pj_jobs := sort_jobs (w_jobs w);
     pj_infra := w_infra w;
     pj_db := w_db w;
     pj_pending := (nonempty (p_exp w), nonempty (p_sug w), nonempty (p_trial w));
     pj_writes := g_writes w;
     pj_nrpc := length (g_rpcs w);
     pj_ctchange := false |}.

(* ------------------------------------------------------------------ equality of projections *)

Definition pexp_eqb (a b : pexp) : bool :=
  optZ_eqb (pe_max a) (pe_max b) && Bool.eqb (pe_fin a) (pe_fin b) && Bool.eqb (pe_deleting a) (pe_deleting b) &&
  conds_eqb (pe_conds a) (pe_conds b) && counts_eqb (pe_counts a) (pe_counts b) &&
  list_eqb (fun p q => Nat.eqb (fst p) (fst q) && class_eqb (snd p) (snd q)) (pe_classes a) (pe_classes b) &&
  option_eqb (fun p q => Nat.eqb (fst p) (fst q) && obs_eqb (snd p) (snd q)) (pe_opt a) (pe_opt b) &&
  Bool.eqb (pe_ctime a) (pe_ctime b).

Definition psug_eqb (a b : psug) : bool :=
  (ps_requests a =? ps_requests b) && list_eqb Nat.eqb (ps_names a) (ps_names b) && (ps_count a =? ps_count b) &&
  conds_eqb (ps_conds a) (ps_conds b) && Nat.eqb (ps_settings a) (ps_settings b).

Definition ptrial_eqb (a b : ptrial) : bool :=
  Nat.eqb (pt_name a) (pt_name b) && conds_eqb (pt_conds a) (pt_conds b) && obs_eqb (pt_obs a) (pt_obs b) &&
  Bool.eqb (pt_ctime a) (pt_ctime b) && Bool.eqb (pt_fin a) (pt_fin b) && Bool.eqb (pt_deleting a) (pt_deleting b).

Definition jphase_eqb (a b : jphase) : bool :=
  match a, b with JActive, JActive | JSucc, JSucc | JFail, JFail => true | _, _ => false end.
Definition job_eqb (a b : job) : bool := Nat.eqb (j_name a) (j_name b) && jphase_eqb (j_phase a) (j_phase b).

Definition infra_eqb (a b : infra) : bool :=
  option_eqb Bool.eqb (i_dep a) (i_dep b) && Bool.eqb (i_svc a) (i_svc b) && Bool.eqb (i_pvc a) (i_pvc b) &&
  Bool.eqb (i_sa a) (i_sa b) && Bool.eqb (i_role a) (i_role b) && Bool.eqb (i_rb a) (i_rb b).

Definition pending_eqb (a b : bool * bool * bool) : bool :=
  let '(a1, a2, a3) := a in let '(b1, b2, b3) := b in Bool.eqb a1 b1 && Bool.eqb a2 b2 && Bool.eqb a3 b3.

(* store part only (used by the quiescence monitor) *)
Definition store_eqb (a b : proj) : bool :=
  option_eqb pexp_eqb (pj_exp a) (pj_exp b) && option_eqb psug_eqb (pj_sug a) (pj_sug b) &&
  list_eqb ptrial_eqb (pj_trials a) (pj_trials b) && list_eqb job_eqb (pj_jobs a) (pj_jobs b) &&
  infra_eqb (pj_infra a) (pj_infra b) &&
  list_eqb (fun p q => Nat.eqb (fst p) (fst q) && optZ_eqb (snd p) (snd q)) (pj_db a) (pj_db b).

Definition proj_eqb (a b : proj) : bool :=
  store_eqb a b && pending_eqb (pj_pending a) (pj_pending b) && Nat.eqb (pj_writes a) (pj_writes b) && Nat.eqb (pj_nrpc a) (pj_nrpc b).

Definition rpc_eqb (a b : rpc) : bool :=
  match a, b with
  | RpcValidate, RpcValidate | RpcValidateES, RpcValidateES => true
  | RpcGetSuggestions c t s, RpcGetSuggestions c' t' s' => (c =? c') && (t =? t') && list_eqb Nat.eqb s s'
  | RpcGetESRules s, RpcGetESRules s' => list_eqb Nat.eqb s s'
  | _, _ => false
  end.

(* ------------------------------------------------------------------ delta encoding of the implementation's projections *)

(* The case files carry, per action, only the components of the projection that changed. *)
Record dproj := {
  d_exp : option (option pexp); d_sug : option (option psug);
  d_trials : list ptrial;                 (* changed or new trials (matched by name; new ones are appended in this order) *)
  d_trials_full : option (list ptrial);   (* the whole list, when a trial disappeared *)
  d_jobs : option (list job); d_infra : option infra; d_db : option (list (nat * option Z));
  d_pending : bool * bool * bool; d_writes : nat; d_nrpc : nat; d_ctchange : bool }.

Definition or_prev {A} (o : option A) (prev : A) : A := match o with Some x => x | None => prev end.

Fixpoint upsert_trial (t : ptrial) (l : list ptrial) : list ptrial :=
  match l with
  | [] => [t]
  | h :: r => if Nat.eqb (pt_name h) (pt_name t) then t :: r else h :: upsert_trial t r
  end.

Definition apply_delta (prev : proj) (d : dproj) : proj :=
  {| pj_exp := or_prev (d_exp d) (pj_exp prev); pj_sug := or_prev (d_sug d) (pj_sug prev);
     pj_trials := match d_trials_full d with Some l => l | None => fold_left (fun l t => upsert_trial t l) (d_trials d) (pj_trials prev) end;
     pj_jobs := or_prev (d_jobs d) (pj_jobs prev); pj_infra := or_prev (d_infra d) (pj_infra prev);
     pj_db := or_prev (d_db d) (pj_db prev); pj_pending := d_pending d; pj_writes := d_writes d; pj_nrpc := d_nrpc d;
     pj_ctchange := d_ctchange d |}.

Fixpoint undelta (prev : proj) (steps : list (action * dproj)) : list (action * proj) :=
  match steps with
  | [] => []
  | (a, d) :: r => let p := apply_delta prev d in (a, p) :: undelta p r
  end.

(* ------------------------------------------------------------------ cases *)

Record case := Case {
  k_cfg : cfg;
  k_dsteps : list (action * dproj);      (* each action with the (delta of the) implementation's projection after it *)
  k_rpcs : list rpc; k_jobcreates : list nat; k_jobdeletes : list nat; k_dbdeletes : list nat; k_finreleased : list nat;
  k_quiet : option nat;                  (* index of the first step of the final "no further effect" round, if driven there *)
  k_kf : bool                            (* history enters a known-finding domain: correspondence not compared *) }.

(* first step at which model and implementation disagree *)
Fixpoint first_diff (w : world) (steps : list (action * proj)) (i : nat) : option nat :=
  match steps with
  | [] => None
  | (a, p) :: r =>
      let w' := step w a in
      if proj_eqb (project w') p then first_diff w' r (S i) else Some i
  end.

(* each action with the implementation's full projection after it *)
Definition k_steps (c : case) : list (action * proj) := undelta (project (init (k_cfg c))) (k_dsteps c).

Definition final_world (c : case) : world := fold_left step (map fst (k_steps c)) (init (k_cfg c)).

Definition logs_agree (c : case) : bool :=
  let w := final_world c in
  list_eqb rpc_eqb (g_rpcs w) (k_rpcs c) && list_eqb Nat.eqb (g_jobcreates w) (k_jobcreates c) &&
  list_eqb Nat.eqb (g_jobdeletes w) (k_jobdeletes c) && list_eqb Nat.eqb (g_dbdeletes w) (k_dbdeletes c) &&
  list_eqb Nat.eqb (g_finreleased w) (k_finreleased c).

Definition agrees (c : case) : bool :=
  k_kf c || (match first_diff (init (k_cfg c)) (k_steps c) 0 with None => true | Some _ => false end && logs_agree c).

Definition mismatches := failing agrees.

(* for replays: where and what *)
Definition explain (c : case) : option (nat * proj) :=
  match first_diff (init (k_cfg c)) (k_steps c) 0 with
  | None => None
  | Some i => Some (i, project (fold_left step (firstn (S i) (map fst (k_steps c))) (init (k_cfg c))))
  end.
