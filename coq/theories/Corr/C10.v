(* C10: comparison functions evaluated on generated case files.
   [mismatches] : model vs implementation (correspondence)
   [violations] : the property monitor evaluated on the IMPLEMENTATION's output
   This file does not depend on the regenerated Gen/Fields.v (that obligation lives in Proofs/C10Fields.v). *)
From KV Require Export Base.Prelude Model.Convert Model.Settings.
Open Scope string_scope.

(* ------------------------------------------------------------------ decidable equality of the records *)

Definition pair_dec {A B} (da : forall a b : A, {a = b} + {a <> b}) (db : forall a b : B, {a = b} + {a <> b})
  : forall x y : A * B, {x = y} + {x <> y}.
Proof. decide equality. Defined.
Definition option_dec {A} (da : forall a b : A, {a = b} + {a <> b}) : forall x y : option A, {x = y} + {x <> y}.
Proof. decide equality. Defined.

Ltac deq := decide equality;
  auto using string_dec, Z.eq_dec, Nat.eq_dec, list_eq_dec, option_dec, pair_dec.

Definition kv_dec : forall a b : kv, {a = b} + {a <> b}. Proof. deq. Defined.
Definition feasible_dec : forall a b : feasible, {a = b} + {a <> b}. Proof. deq. Defined.
Definition param_dec : forall a b : param, {a = b} + {a <> b}. Proof. pose feasible_dec. deq. Defined.
Definition objective_dec : forall a b : objective, {a = b} + {a <> b}. Proof. pose kv_dec. deq. Defined.
Definition algorithm_dec : forall a b : algorithm, {a = b} + {a <> b}. Proof. pose kv_dec. deq. Defined.
Definition graph_dec : forall a b : graph, {a = b} + {a <> b}. Proof. deq. Defined.
Definition operation_dec : forall a b : operation, {a = b} + {a <> b}. Proof. pose param_dec. deq. Defined.
Definition nas_dec : forall a b : nas, {a = b} + {a <> b}. Proof. pose graph_dec. pose operation_dec. deq. Defined.
Definition experiment_dec : forall a b : experiment, {a = b} + {a <> b}.
Proof. pose param_dec. pose objective_dec. pose algorithm_dec. pose nas_dec. deq. Defined.
Definition trial_image_dec : forall a b : trial_image, {a = b} + {a <> b}.
Proof. pose kv_dec. pose objective_dec. deq. Defined.

Definition pb_ptype_dec : forall a b : pb_ptype, {a = b} + {a <> b}. Proof. decide equality. Defined.
Definition pb_dist_dec : forall a b : pb_dist, {a = b} + {a <> b}. Proof. decide equality. Defined.
Definition pb_otype_dec : forall a b : pb_otype, {a = b} + {a <> b}. Proof. decide equality. Defined.
Definition pb_cond_dec : forall a b : pb_cond, {a = b} + {a <> b}. Proof. decide equality. Defined.
Definition pb_feasible_dec : forall a b : pb_feasible, {a = b} + {a <> b}. Proof. pose pb_dist_dec. deq. Defined.
Definition pb_param_dec : forall a b : pb_param, {a = b} + {a <> b}. Proof. pose pb_ptype_dec. pose pb_feasible_dec. deq. Defined.
Definition pb_objective_dec : forall a b : pb_objective, {a = b} + {a <> b}. Proof. pose pb_otype_dec. deq. Defined.
Definition pb_algorithm_dec : forall a b : pb_algorithm, {a = b} + {a <> b}. Proof. pose kv_dec. deq. Defined.
Definition pb_graph_dec : forall a b : pb_graph, {a = b} + {a <> b}. Proof. deq. Defined.
Definition pb_operation_dec : forall a b : pb_operation, {a = b} + {a <> b}. Proof. pose pb_param_dec. deq. Defined.
Definition pb_nas_dec : forall a b : pb_nas, {a = b} + {a <> b}. Proof. pose pb_graph_dec. pose pb_operation_dec. deq. Defined.
Definition pb_experiment_dec : forall a b : pb_experiment, {a = b} + {a <> b}.
Proof. pose pb_param_dec. pose pb_objective_dec. pose pb_algorithm_dec. pose pb_nas_dec. deq. Defined.
Definition pb_trial_dec : forall a b : pb_trial, {a = b} + {a <> b}.
Proof. pose kv_dec. pose pb_objective_dec. pose pb_cond_dec. deq. Defined.

Definition eqb_of {A} (d : forall a b : A, {a = b} + {a <> b}) (a b : A) : bool := if d a b then true else false.

(* outcomes agree: same value, or both an error, or both a panic (the site of a panic is not observable from Go) *)
Definition same_outcome {A} (d : forall a b : A, {a = b} + {a <> b}) (m i : outcome A) : bool :=
  match m, i with
  | Ok a, Ok b => eqb_of d a b
  | Err _, Err _ => true
  | Crash _, Crash _ => true
  | _, _ => false
  end.

(* ------------------------------------------------------------------ cases *)

Inductive case :=
(* General.ConvertExperiment on e *)
| CExp (e : experiment) (impl : outcome pb_experiment)
(* General.ConvertTrials on ts *)
| CTrials (ts : list trial) (impl : outcome (list pb_trial))
(* General.SyncAssignments with fake services: e, Suggestion.status.algorithmSettings, the settings of the reply, the trials;
   observed: Experiment and Trials of the captured GetSuggestionsRequest, Suggestion.status.algorithmSettings afterwards *)
| CSync (e : experiment) (sug : list kv) (reply : list (option kv)) (ts : list trial)
        (impl : outcome (pb_experiment * list pb_trial * list kv))
(* reflective probe of API field st.fd on a fully populated experiment e / trials ts:
   verdict 2 = the distinctive value is found in the messages, 1 = the messages differ from the unprobed ones, 0 = no effect *)
| CField (st fd : string) (verdict : nat) (e : experiment) (ts : list trial)
         (impl_e : outcome pb_experiment) (impl_ts : outcome (list pb_trial))
(* enum probe: for the values of API enum type ty (declared constants of the tree, flagged true, and some undeclared strings)
   the NAME of the proto enum value observed in the real message *)
| CEnum (ty : string) (rows : list (string * bool * string)).

(* ------------------------------------------------------------------ correspondence *)

Definition model_sync (e : experiment) (sug : list kv) (reply : list (option kv)) (ts : list trial)
  : outcome (pb_experiment * list pb_trial * list kv) :=
  match sync_request e sug ts with
  | Ok (pe, pts) => Ok (pe, pts, update_settings sug reply)
  | Err c => Err c
  | Crash s => Crash s
  end.

Definition class_of (st fd : string) : nat :=
  let has l := existsb (fun x : string * string * string => (fst (fst x) =? st) && (snd (fst x) =? fd)) l in
  if has carried_fields then 3 else if has consumed_fields then 2 else if has reverse_fields then 1 else 0.

Definition agrees (c : case) : bool :=
  match c with
  | CExp e impl => same_outcome pb_experiment_dec (convert_experiment e) impl
  | CTrials ts impl => same_outcome (list_eq_dec pb_trial_dec) (convert_trials ts) impl
  | CSync e sug reply ts impl =>
      same_outcome (pair_dec (pair_dec pb_experiment_dec (list_eq_dec pb_trial_dec)) (list_eq_dec kv_dec))
                   (model_sync e sug reply ts) impl
  | CField st fd verdict e ts impl_e impl_ts =>
      same_outcome pb_experiment_dec (convert_experiment e) impl_e &&
      same_outcome (list_eq_dec pb_trial_dec) (convert_trials ts) impl_ts &&
      (* the model's table and the probe agree on what happens to the field *)
      match class_of st fd with
      | 3 => Nat.eqb verdict 2
      | 2 => Nat.leb 1 verdict
      | 1 => Nat.eqb verdict 0
      | _ => false
      end
  | CEnum ty rows =>
      forallb (fun r => let '(v, declared, img) := r in
                        (enum_image ty v =? img) && Bool.eqb declared (declared_in_model ty v)) rows
  end.
Definition mismatches := failing agrees.

(* ------------------------------------------------------------------ the property monitor (on the implementation's output) *)

(* Experiment: what the service can read back is the experiment (as [view_experiment] states it) *)
Definition experiment_arrives (e : experiment) (pe : pb_experiment) : bool :=
  eqb_of experiment_dec (unconvert_experiment pe) (view_experiment e).

(* Trials: the reported ones are the trials not withheld, in order, each with name, objective, assignments, labels, stamps, last
   condition, and per metric the value selected by the metric's strategy *)
Definition expected_images (ts : list trial) : option (list trial_image) :=
  fold_right (fun t acc =>
                if skipped t then acc
                else match t_objective t, acc with
                     | Some o, Some l => Some (view_trial o t :: l)
                     | _, _ => None
                     end) (Some []) ts.
Definition trials_arrive (ts : list trial) (impl : outcome (list pb_trial)) : bool :=
  match expected_images ts with
  | None => true                                 (* some reportable trial has no objective: the property is silent *)
  | Some imgs => match impl with
                 | Ok out => eqb_of (list_eq_dec trial_image_dec) (map unconvert_trial out) imgs
                 | _ => false
                 end
  end.

(* Settings: [result] lists the names of [base] in order followed by the new names of [over] in order of first appearance;
   under each name the value is the one [over] gives last, else the one of [base] *)
Definition settings_override (base over result : list kv) : bool :=
  eqb_of (list_eq_dec string_dec) (names result) (names base ++ new_names (names base) over)%list &&
  forallb (fun n => eqb_of (option_dec string_dec) (lookup n result)
                           (match lookup_last n over with Some v => Some v | None => lookup n base end))
          (names result).

Definition holds (c : case) : bool :=
  match c with
  | CExp e impl =>
      match e_algorithm e, e_objective e with
      | Some _, Some _ => match impl with Ok pe => experiment_arrives e pe | _ => false end
      | _, _ => true                             (* nothing to convey an algorithm / objective from: the property is silent *)
      end
  | CTrials ts impl => trials_arrive ts impl
  | CSync e sug reply ts impl =>
      match e_algorithm e, e_objective e, expected_images ts with
      | Some a, Some _, Some _ =>
          match impl with
          | Ok (pe, pts, st) =>
              experiment_arrives (with_settings e (pa_settings (pe_algorithm pe))) pe &&
              settings_override (a_settings a) sug (pa_settings (pe_algorithm pe)) &&
              trials_arrive ts (Ok pts) &&
              settings_override sug (somes reply) st
          | _ => false
          end
      | _, _, _ => true
      end
  | CField st fd verdict _ _ _ _ =>
      match class_of st fd with
      | 3 => Nat.eqb verdict 2                   (* carried: the value itself must arrive *)
      | 2 => Nat.leb 1 verdict                   (* consumed: it must at least make a difference *)
      | 1 => true                                (* other direction *)
      | _ => false                               (* a field of the named API types that nobody has accounted for *)
      end
  | CEnum ty rows =>
      let own r := let '(v, declared, _) := r in
                   (declared : bool) && negb (existsb (fun p => (fst p =? ty) && (snd p =? v)) enum_unknown_ok) in
      forallb (fun r => let '(v, declared, img) := r in
                        if own r then
                          negb (img =? enum_unknown_name ty) &&
                          forallb (fun r' => let '(v', _, img') := r' in
                                             negb (own r') || (v =? v') || negb (img =? img')) rows
                        else if declared then true
                        else img =? enum_unknown_name ty) rows
  end.
Definition violations := failing holds.
