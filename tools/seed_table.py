#!/usr/bin/env python3
"""Prints the markdown table of seeded changes from seeded/*/meta.json (for DESIGN.md section 12)."""
import glob, json, os, re
V = os.path.dirname(os.path.dirname(os.path.abspath(__file__)))
rows = []
for f in sorted(glob.glob(os.path.join(V, "seeded", "*", "meta.json"))):
    m = json.load(open(f))
    readme = open(os.path.join(os.path.dirname(f), "README.md")).read() if os.path.exists(os.path.join(os.path.dirname(f), "README.md")) else ""
    title = re.sub(r"^#+\s*", "", readme.strip().splitlines()[0])[:110] if readme.strip() else ""
    checks = "; ".join("%s: %s" % (k, ("VIOLATION with input" if any(l.startswith("VIOLATION") and "no-failing-input-found" not in l for l in v["lines"])
                                      else "VIOLATION no-failing-input-found" if any(l.startswith("VIOLATION") for l in v["lines"]) else "exit %s (missed)" % v["exit"]))
                       for k, v in m.get("checks", {}).items())
    rows.append("| %s | %s | %s | %s | %s |" % (m["id"], m["property"], title.replace("|", "/"), "yes" if m.get("confirmed") else "NO", checks))
print("| id | property | change | confirmed | registered check |\n|----|----------|--------|-----------|------------------|")
print("\n".join(rows))
