#!/usr/bin/env python3
"""Rewrites the part of DESIGN.md after the marker <!-- ROUNDS-2-4 --> from seeded/*/meta.json."""
import glob, json, os, re, subprocess
V = os.path.dirname(os.path.dirname(os.path.abspath(__file__)))
p = os.path.join(V, "DESIGN.md")
s = open(p).read()
marker = "\n<!-- ROUNDS-2-4 -->\n"
head = s[:s.index(marker) + len(marker)]
metas = {}
for f in sorted(glob.glob(os.path.join(V, "seeded", "*", "meta.json"))):
    m = json.load(open(f)); metas[m["id"]] = m
def outcome(m):
    ch = m.get("checks", {})
    if any(any(l.startswith("VIOLATION") and "no-failing-input-found" not in l for l in v["lines"]) for v in ch.values()): return "input"
    if any(any(l.startswith("VIOLATION") for l in v["lines"]) for v in ch.values()): return "alarm"
    return "missed"
rounds = {"2": "c", "3": "d", "4": "e"}
lines = ["### 12.1 Rounds 2 to 4\n",
 "Sixty more changes (ids `*-c`, `*-d`, `*-e`), written like those of round 1 by sub-agents that saw nothing of /verif; from round 3",
 "on each agent was also given a mechanism class to prefer (list in section 0.6). They were confirmed and evaluated with",
 "`tools/seed_eval.py` and, after the last strengthening, all re-evaluated in one go (`tools/reeval_all.py`) against the final",
 "tree (/repo 88eea22). Final outcome per round (confirmed changes only; `input` = VIOLATION with a concrete failing input,",
 "`alarm` = VIOLATION … no-failing-input-found, `missed` = exit 0):\n",
 "| round | changes | confirmed | input | alarm | missed |", "|---|---|---|---|---|---|"]
allr = [("1", [m for i, m in metas.items() if i[-1] in "ab"])] + [(r, [m for i, m in metas.items() if i.endswith("-" + sfx)]) for r, sfx in rounds.items()]
for r, ms in allr:
    conf = [m for m in ms if m.get("confirmed")]
    oc = [outcome(m) for m in conf]
    lines.append("| %s | %d | %d | %d | %d | %d |" % (r, len(ms), len(conf), oc.count("input"), oc.count("alarm"), oc.count("missed")))
lines.append("")
notin = [m["id"] for ms in [x[1] for x in allr] for m in ms if m.get("confirmed") and outcome(m) != "input"]
unconf = [m["id"] for ms in [x[1] for x in allr] for m in ms if not m.get("confirmed")]
lines.append("Not reported with an input at the end: %s. Not confirmed here (the demonstration did not behave as stated in the evaluation run; kept for the record, not counted): %s.\n" % (", ".join(notin) or "none", ", ".join(unconf) or "none"))
lines.append("C03-e (the experiment reconcile that produces the verdict still reconciles trials, and marks the experiment Failed as well when the")
lines.append("suggestion has failed) changes the writes of ordinary histories (one more sync after a goal verdict), which breaks the")
lines.append("correspondence; its violation needs a suggestion that fails while trials exist, which the environment of the model does not produce")
lines.append("(a suggestion fails at validation, before any trial). C08-e and C08-b (the suggestion status written by retry-on-conflict / by a")
lines.append("merge patch) lose assignments only when the writer's copy misses assignments appended since; the histories of a quick run")
lines.append("expose the broken correspondence (conditions overwritten) every time, the lost assignment only for some seeds.\n")
lines.append("What was missing when a change of rounds 2–4 was missed or reported without an input the first time, and what was strengthened (every")
lines.append("strengthening is generic: none mentions the change):\n")
lines.append(subprocess.run(["python3", os.path.join(V, "tools", "seed_history.py")], stdout=subprocess.PIPE, text=True).stdout)
lines.append("\nAll changes of rounds 2–4:\n")
tab = subprocess.run(["python3", os.path.join(V, "tools", "seed_table.py")], stdout=subprocess.PIPE, text=True).stdout.splitlines()
lines += tab[:2] + [l for l in tab[2:] if re.match(r"\| C\d\d-[cde] ", l)]
open(p, "w").write(head + "\n".join(lines) + "\n")
print("rewritten", len(lines))
