#!/bin/bash
# Long soak of the joint-model checks: thorough-size history sets with several seeds (no clean rebuild, no coqchk).
# usage: tools/soak_world.sh "2 3 4 5"
cd "$(dirname "$0")/.." || exit 1
export VERIF_NO_CLEAN=1
for s in ${1:-"2 3"}; do
  for p in C01 C03 C04 C06 C07 C08 C16; do
    out=$(./check $p --tier thorough --seed $s 2>&1); rc=$?
    echo "seed=$s $p rc=$rc $(echo "$out" | grep -E '^WORLD' | head -1)"
    echo "$out" | grep -E "^VIOLATION" | head -3
  done
done
