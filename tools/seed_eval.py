#!/usr/bin/env python3
"""Confirms a seeded change produced by an independent sub-agent and runs the registered check against it.

   tools/seed_eval.py <srcdir> <PROP> <id> [--demo-path P] [--demo-cmd CMD] [--also C03,C04]

   <srcdir> holds patch.diff, the demonstration file(s) and README.md.  In a scratch worktree of /repo:
   demo passes without the patch; with the patch the tree builds, the existing tests give the same results as on the
   unchanged tree, and the demo fails.  Then `VERIF_REPO=<worktree> ./check <PROP>` is run.  Everything is recorded in
   /verif/seeded/<id>/ (patch.diff, demo, README.md, meta.json).  The worktree is removed afterwards."""
import argparse
import json
import os
import re
import shutil
import subprocess
import sys
import time

VERIF = os.path.dirname(os.path.dirname(os.path.abspath(__file__)))
ENV = dict(os.environ, GOFLAGS="-mod=mod", GOPROXY="off", GOSUMDB="off", GOTOOLCHAIN="local")


def sh(cmd, cwd=None, env=None, timeout=3600):
    p = subprocess.run(cmd, shell=True, cwd=cwd, env=env or ENV, stdout=subprocess.PIPE, stderr=subprocess.STDOUT, text=True, timeout=timeout)
    return p.returncode, p.stdout


def test_summary(wt):
    rc, out = sh("go test -vet=off -count=1 ./pkg/... ./cmd/... 2>&1 | grep -E '^(ok|FAIL|--- FAIL|\\?)' | sed -E 's/\\t[0-9.]+s$//; s/ \\([0-9.]+s\\)$//; s/\\(cached\\)//' | sort", cwd=wt)
    return out


def main():
    ap = argparse.ArgumentParser()
    ap.add_argument("src")
    ap.add_argument("prop")
    ap.add_argument("id")
    ap.add_argument("--demo-path")
    ap.add_argument("--demo-cmd")
    ap.add_argument("--also", default="")
    ap.add_argument("--tier", default="quick")
    a = ap.parse_args()
    readme = open(os.path.join(a.src, "README.md")).read() if os.path.exists(os.path.join(a.src, "README.md")) else ""
    demos = [f for f in os.listdir(a.src) if f.endswith(".go")]
    # where the demonstration goes: a directory of the tree (all .go files of <src> are copied there)
    demo_dir = a.demo_path
    alltext = readme + "\n" + "\n".join(open(os.path.join(a.src, f), errors="replace").read()[:1500] for f in demos)
    if not demo_dir:
        cands = re.findall(r"((?:pkg|cmd)/[\w./-]+?)(?:/[\w.-]+\.go|/)[`\s)\]]", alltext)
        cands = [c.rstrip("/") for c in cands]
        pref = [c for c in cands if re.search(r"zz|demo", c)]
        demo_dir = (pref or cands or [None])[0]
    if demo_dir and demo_dir.endswith(".go"):
        demo_dir = os.path.dirname(demo_dir)
    demo_cmd = a.demo_cmd
    if not demo_cmd and demo_dir:
        tags = "verif"
        if re.search(r"-tags[ =]demo|go:build demo", alltext):
            tags = "demo,verif"
        demo_cmd = "go test -tags %s -vet=off -count=1 ./%s/" % (tags, demo_dir)
        # restrict to this mutation's tests when the directory is a real katib package with its own tests
        m = re.search(r"-run[ =]'?\"?([\w|^$()]+)", readme)
        if m and not re.search(r"zz|demo", demo_dir):
            demo_cmd += " -run '%s'" % m.group(1)
    if not demo_dir or not demo_cmd or not demos:
        print("cannot determine demo dir/command; pass --demo-path/--demo-cmd", demo_dir, demo_cmd, demos)
        return 2
    demo_path = demo_dir
    wt = "/tmp/wt_eval_%s" % a.id.replace("/", "_")
    sh("git -C /repo worktree remove --force %s" % wt)
    rc, out = sh("git -C /repo worktree add -q %s HEAD" % wt)
    if rc:
        print(out)
        return 2
    meta = dict(id=a.id, property=a.prop, source="independent sub-agent given only the property text and a scratch worktree",
                repo_commit=sh("git -C /repo rev-parse --short HEAD")[1].strip(), ran=[])
    try:
        base_file = "/tmp/seed_baseline_%s.txt" % meta["repo_commit"]
        if not os.path.exists(base_file):
            open(base_file, "w").write(test_summary(wt))
        baseline = open(base_file).read()
        # demo on the unchanged tree
        tdir = os.path.join(wt, demo_path)
        created_dir = not os.path.isdir(tdir)

        def put_demo():
            os.makedirs(tdir, exist_ok=True)
            for f in demos:
                shutil.copy(os.path.join(a.src, f), os.path.join(tdir, f))

        def drop_demo():
            for f in demos:
                try:
                    os.remove(os.path.join(tdir, f))
                except OSError:
                    pass
            if created_dir:
                shutil.rmtree(tdir, ignore_errors=True)

        put_demo()
        rc0, out0 = sh(demo_cmd, cwd=wt)
        meta["ran"].append(dict(step="demo on unchanged tree", cmd=demo_cmd, exit=rc0, tail=out0[-600:]))
        drop_demo()
        # patch
        rc, out = sh("git apply %s" % os.path.join(a.src, "patch.diff"), cwd=wt)
        meta["ran"].append(dict(step="git apply patch.diff", exit=rc, tail=out[-300:]))
        if rc:
            raise RuntimeError("patch does not apply")
        rcb, outb = sh("go build ./... && go build -tags verif ./pkg/... ./cmd/...", cwd=wt)
        meta["ran"].append(dict(step="go build ./... (and with -tags verif)", exit=rcb, tail=outb[-600:]))
        cur = test_summary(wt)
        same = cur == baseline
        meta["ran"].append(dict(step="existing tests (go test -vet=off -count=1 ./pkg/... ./cmd/...) same as unchanged tree", same=same,
                                diff=[l for l in cur.splitlines() if l not in baseline.splitlines()][:10]))
        put_demo()
        rc1, out1 = sh(demo_cmd, cwd=wt)
        meta["ran"].append(dict(step="demo with the change", cmd=demo_cmd, exit=rc1, tail=out1[-900:]))
        drop_demo()
        meta["confirmed"] = bool(rc0 == 0 and rcb == 0 and same and rc1 != 0)
        # the registered checks
        results = {}
        for pid in [a.prop] + [x for x in a.also.split(",") if x]:
            t0 = time.time()
            rc, out = sh("./check %s --tier %s" % (pid, a.tier), cwd=VERIF, env=dict(os.environ, VERIF_REPO=wt))
            lines = [l for l in out.splitlines() if l.startswith("VIOLATION") or l.startswith("KNOWN-FINDING")]
            results[pid] = dict(exit=rc, lines=lines, wall_s=round(time.time() - t0, 1))
            replay = None
            for l in lines:
                m = re.search(r"replay=(\S+)", l)
                if m and l.startswith("VIOLATION"):
                    replay = m.group(1)
            if replay and os.path.exists(os.path.join(VERIF, replay)):
                results[pid]["replay_excerpt"] = open(os.path.join(VERIF, replay)).read()[:1500]
        meta["checks"] = results
        meta["detected"] = any(r["exit"] == 1 and any(l.startswith("VIOLATION") for l in r["lines"]) for r in results.values())
        meta["detected_with_failing_input"] = any(any(l.startswith("VIOLATION") and "no-failing-input-found" not in l for l in r["lines"]) for r in results.values())
    finally:
        sh("git -C /repo worktree remove --force %s" % wt)
        shutil.rmtree(wt, ignore_errors=True)
    m = re.search(r"(?is)(what it needs[^\n]*\n?.*?)(?:\n\n|\n\*\*|\n#)", readme)
    meta["needs_to_manifest"] = (m.group(1).strip()[:700] if m else "see README.md")
    dst = os.path.join(VERIF, "seeded", a.id)
    os.makedirs(dst, exist_ok=True)
    for f in os.listdir(a.src):
        if os.path.isfile(os.path.join(a.src, f)):
            shutil.copy(os.path.join(a.src, f), os.path.join(dst, f))
    meta["demo_path_in_tree"] = demo_path
    json.dump(meta, open(os.path.join(dst, "meta.json"), "w"), indent=1)
    print(json.dumps(dict(id=a.id, confirmed=meta.get("confirmed"), detected=meta.get("detected"),
                          with_input=meta.get("detected_with_failing_input"), checks={k: (v["exit"], v["lines"][:2]) for k, v in meta.get("checks", {}).items()}), indent=1))
    return 0


if __name__ == "__main__":
    sys.exit(main())
