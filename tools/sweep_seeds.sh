#!/bin/bash
# Runs every registered quick check with several seeds on the unchanged tree and reports any exit != 0 (false-alarm hunt).
# usage: tools/sweep_seeds.sh "2 3 4" [props...]
cd "$(dirname "$0")/.." || exit 1
seeds=${1:-"2 3"}; shift
props=${@:-$(python3 -c "
import json; print(' '.join(c['property_id'] for c in json.load(open('MANIFEST.json'))['checks']))")}
for s in $seeds; do
  for p in $props; do
    out=$(VERIF_SEED=$s ./check $p 2>&1); rc=$?
    if [ $rc -ne 0 ]; then echo "seed=$s $p rc=$rc"; echo "$out" | grep -E "VIOLATION|Traceback|Error" | head -3; else echo "seed=$s $p ok"; fi
  done
done
