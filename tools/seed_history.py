#!/usr/bin/env python3
"""Prints the markdown table of seeded changes that were NOT reported with a failing input at first, from the
evaluation_history entries of seeded/*/meta.json (for DESIGN.md section 12)."""
import glob, json, os, re
V = os.path.dirname(os.path.dirname(os.path.abspath(__file__)))
rows = []
for f in sorted(glob.glob(os.path.join(V, "seeded", "*", "meta.json"))):
    m = json.load(open(f))
    readme = os.path.join(os.path.dirname(f), "README.md")
    title = ""
    if os.path.exists(readme):
        t = open(readme).read().strip().splitlines()
        title = re.sub(r"^#+\s*", "", t[0]) if t else ""
        title = re.sub(r"^%s\s*[—:-]+\s*" % re.escape(m["id"]), "", title)[:90]
    hist = m.get("evaluation_history", [])
    if isinstance(hist, str):
        continue  # round 1: free text, listed by hand in DESIGN.md
    for h in hist:
        if isinstance(h, dict) and h.get("what_was_missing"):
            rows.append("| %s (%s) | %s | %s | %s |" % (m["id"], title.replace("|", "/"), h.get("outcome", ""), h["what_was_missing"], h.get("strengthened", "")))
print("| change | first outcome | what was missing | what was strengthened |\n|---|---|---|---|")
print("\n".join(rows))
