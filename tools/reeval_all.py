import json, os, shutil, subprocess, sys, glob
import os
V=os.getcwd()
ids=sorted(os.listdir(V+'/seeded'))
special={'C20-d': ['--demo-path','pkg/ui/v1beta1']}
for id_ in ids:
    d=os.path.join(V,'seeded',id_)
    if not os.path.exists(os.path.join(d,'patch.diff')): continue
    old=json.load(open(os.path.join(d,'meta.json'))) if os.path.exists(os.path.join(d,'meta.json')) else {}
    src='/tmp/seed2/src_'+id_
    shutil.rmtree(src, ignore_errors=True); shutil.copytree(d, src)
    for f in ('meta.json',):
        try: os.remove(os.path.join(src,f))
        except OSError: pass
    prop=old.get('property') or id_.split('-')[0]
    cmd=['python3','tools/seed_eval.py',src,prop,id_]
    if old.get('demo_path_in_tree') and id_ not in special: cmd+=['--demo-path', old['demo_path_in_tree']]
    cmd+=special.get(id_,[])
    also=[k for k in (old.get('checks') or {}) if k!=prop]
    if also: cmd+=['--also', ','.join(also)]
    r=subprocess.run(cmd,cwd=V,stdout=subprocess.PIPE,stderr=subprocess.STDOUT,text=True)
    new=json.load(open(os.path.join(d,'meta.json')))
    if old.get('evaluation_history'): new['evaluation_history']=old['evaluation_history']
    if (old.get('detected') is False or old.get('detected_with_failing_input') is False) and not any(h.get('strengthened') for h in new.get('evaluation_history',[])) and old.get('checks'):
        new.setdefault('evaluation_history',[]).append(dict(outcome='missed' if not old.get('detected') else 'alarm without input',
            checks={k: dict(exit=v['exit'], lines=[l[:200] for l in v['lines']]) for k,v in old['checks'].items()}))
    new['note']='re-evaluated against /repo %s and the machinery as committed with it' % new.get('repo_commit')
    json.dump(new, open(os.path.join(d,'meta.json'),'w'), indent=1)
    print(id_, new.get('confirmed'), new.get('detected'), new.get('detected_with_failing_input'), flush=True)
    shutil.rmtree(src, ignore_errors=True)
print('FULLDONE')
